/-
C06 — stages always close, terminate on cancel, never leak or panic.

Consumer stages (Map, FMap, Filter, ForEach, Void, Fold, Partition, Take, TakeWhile), `Join` and
every `fork` stage are worker pools (`Golem.Go.Pool`); the theorems below hold for every pool
configuration, every capacity and every finite sequence of environment moves (send, close,
receive, cancel — in any order, at any point) interleaved with the stage's own moves.
(Sources and Throttling: `Golem.Go.Sources`, `Golem.Go.Throttle`, cited at the end when built.)
-/
import Golem.Lemmas.PoolClosed
import Golem.Lemmas.StageErr
import Golem.Props.C13
import Golem.Props.C11
namespace Golem.Props.C06
open Golem.Go Golem.Go.Stage Golem.Go.Pool Golem.Model Golem.Lemmas Golem.Lemmas.StageSpec

variable {σ α β ε : Type}

/-- no library goroutine ever panics: no send on a closed channel, no double close -/
theorem pool_no_panic (st : Stage σ α β) (nW : Nat) (inp : Nat → Nat) (s0 : σ) (inCap outCap : Nat → Nat)
    (closes : List Nat) (gated : Bool) (hnd : closes.Nodup) {p : Pool σ α β}
    (hr : Reachable st (Pool.init nW inp s0 inCap outCap closes gated) p) : p.panicked = false :=
  (inv_reachable st nW inp s0 inCap outCap closes gated hnd hr).noPanic

/-- outputs are closed only after every worker has returned -/
theorem pool_close_after_workers (st : Stage σ α β) (nW : Nat) (inp : Nat → Nat) (s0 : σ) (inCap outCap : Nat → Nat)
    (closes : List Nat) (gated : Bool) (hnd : closes.Nodup) {p : Pool σ α β}
    (hr : Reachable st (Pool.init nW inp s0 inCap outCap closes gated) p) (k : Nat)
    (hk : (p.outs k).closed = true) : p.allExited = true :=
  ((inv_reachable st nW inp s0 inCap outCap closes gated hnd hr).closedLate k hk).1

/-- what has been delivered is always a prefix of the uncancelled result — cancelled or not —
for every single-goroutine stage without exit-path sends (all but Fold) -/
theorem pipe_prefix (st : Stage σ α β) (s0 : σ) (inCap : Nat) (outCap : Nat → Nat) (closes : List Nat)
    (hnd : closes.Nodup) (gated : Bool) (hf : ∀ s, st.final s = []) {p : Pool σ α β}
    (hr : Reachable st (pipePool s0 inCap outCap closes gated) p) (k : Nat) :
    p.delivered k <+: onCh k (st.run s0 (p.sent 0)).ems :=
  single_delivered_prefix (inv_reachable st 1 _ s0 _ outCap closes gated hnd hr)
    (by have := reachable_nW hr; simpa [pipePool, Pool.init] using this) hf k

/-- any pool (fork stages, Join): each worker's completed sends are a prefix of the sequential
meaning of the stage on that worker's own consumed elements -/
theorem pool_worker_prefix (st : Stage σ α β) (nW : Nat) (inp : Nat → Nat) (s0 : σ) (inCap outCap : Nat → Nat)
    (closes : List Nat) (gated : Bool) (hnd : closes.Nodup) {p : Pool σ α β}
    (hr : Reachable st (Pool.init nW inp s0 inCap outCap closes gated) p) (i : Nat) :
    (p.ws i).out <+: (st.run s0 (p.ws i).hist).ems :=
  worker_out_prefix (inv_reachable st nW inp s0 inCap outCap closes gated hnd hr) i

/-- Fold in uncancelled runs: exactly the fold (`fold_prefix_partial`: the full statement fails after
cancel, where `pipe.Fold` still sends its partial accumulator — known finding, see `fold_sends_partial_acc`) -/
theorem fold_prefix_partial (c : α → α → α) (e : α) (inCap : Nat) (outCap : Nat → Nat) {p : Pool α α α}
    (hr : Reachable (foldS c) (pipePool e inCap outCap [0] false) p)
    (hc : p.cancelled = false) (hx : Ctl.isExited (p.ws 0).ctl = true) (hcl : (p.ins 0).closed = true) :
    p.delivered 0 ++ (p.outs 0).buf = [(p.sent 0).foldl c e] := by
  have h0 := single_complete (inv_reachable (foldS c) 1 _ e _ outCap [0] false (by decide) hr)
    (by have := reachable_nW hr; simpa [pipePool, Pool.init] using this) hc hx hcl 0
  rw [(StageSpec.fold_out c e _).1, (StageSpec.fold_out c e _).2] at h0
  simpa using h0

/-- the exit path of Fold sends the accumulator whatever the reason for leaving the loop
(`Why.done` included): the model is faithful to `defer func(){ done <- acc; close(done) }()` -/
theorem fold_sends_partial_acc (c : α → α → α) (acc : α) : (foldS c).final acc = [(0, acc)] := rfl

/-- between two environment moves a pool makes only finitely many moves under every scheduler -/
theorem pool_moves_finite (st : Stage σ α β) (s0 : σ) (inp : Nat → Nat) (nIn : Nat) :
    WellFounded (fun (q p : Pool σ α β) =>
      Inv st s0 inp p ∧ (∀ i, i < p.nW → (p.ws i).inp < nIn) ∧ q ∈ procNext st p) :=
  proc_terminates st s0 inp nIn

/-- a stage whose loop bodies only send under `select` and which has no exit-path send is never
stuck on a plain send -/
theorem sel_never_blockedPlain (st : Stage σ α β) (hsel : ∀ s a, ∀ e ∈ (st.react s a).2.1, e.mode = .sel)
    (hf : ∀ s, st.final s = []) {s0 : σ} {inp : Nat → Nat} {p : Pool σ α β} (h : Inv st s0 inp p) (i : Nat) :
    ¬ blockedPlain p i := by
  intro hb
  have hw := h.worker i
  unfold blockedPlain at hb
  unfold WInv at hw
  cases hctl : (p.ws i).ctl with
  | busy s pend aft =>
    cases pend with
    | nil => simp [hctl] at hb
    | cons e rest =>
      simp only [hctl] at hb hw
      have hmem : e ∈ (st.run s0 (p.ws i).hist).ems := by rw [hw.2.1]; simp
      have := StageErr.run_all_sel st hsel s0 _ e hmem
      rw [hb.1] at this; cases this
  | exiting s fin why =>
    cases fin with
    | nil => simp [hctl] at hb
    | cons x rest =>
      simp only [hctl] at hw
      have := hw.2.2.2.2.2.2
      rw [hf] at this
      simp at this
  | idle s => simp [hctl] at hb
  | calling s a => simp [hctl] at hb
  | exited s why => simp [hctl] at hb

/-- once the context is cancelled and the inputs are closed, a pool that can make no further move of
its own — nobody needs to receive anything — has all its goroutines exited and all its channels closed -/
theorem pool_cancel_terminates (st : Stage σ α β) (nW : Nat) (inp : Nat → Nat) (s0 : σ) (inCap outCap : Nat → Nat)
    (closes : List Nat) (hnd : closes.Nodup) {p : Pool σ α β}
    (hr : Reachable st (Pool.init nW inp s0 inCap outCap closes false) p)
    (hc : p.cancelled = true) (hcl : ∀ i, i < nW → (p.ins (inp i)).closed = true)
    (hq : procNext st p = []) (hb : ∀ i, i < nW → ¬ blockedPlain p i) :
    p.allExited = true ∧ ∀ k ∈ closes, (p.outs k).closed = true := by
  have hn : p.nW = nW := by have := reachable_nW hr; simpa [Pool.init] using this
  have hg : p.gated = false := by have := reachable_gated hr; simpa [Pool.init] using this
  have hI := inv_reachable st nW inp s0 inCap outCap closes false hnd hr
  have := quiescent_cancelled st hI hc hg (by intro i hi; exact hcl i (hn ▸ hi)) hq (by intro i hi; exact hb i (hn ▸ hi))
  exact ⟨this.1, all_closed_of_done (closedInv_reachable st nW inp s0 inCap outCap closes false hr) this.2⟩

/-- once the inputs are closed and the outputs drained (nothing left to receive), a quiescent pool has
all its goroutines exited and all its channels closed — cancelled or not -/
theorem pool_closes (st : Stage σ α β) (nW : Nat) (inp : Nat → Nat) (s0 : σ) (inCap outCap : Nat → Nat)
    (closes : List Nat) (hnd : closes.Nodup) {p : Pool σ α β}
    (hr : Reachable st (Pool.init nW inp s0 inCap outCap closes false) p)
    (hcl : ∀ i, i < nW → (p.ins (inp i)).closed = true)
    (hq : procNext st p = []) (hd : ∀ k, ¬ canRecv st p k) (hb : ∀ i, i < nW → ¬ blockedPlain p i) :
    p.allExited = true ∧ ∀ k ∈ closes, (p.outs k).closed = true := by
  have hn : p.nW = nW := by have := reachable_nW hr; simpa [Pool.init] using this
  have hg : p.gated = false := by have := reachable_gated hr; simpa [Pool.init] using this
  have hI := inv_reachable st nW inp s0 inCap outCap closes false hnd hr
  have := quiescent_drained st hI hg (by intro i hi; exact hcl i (hn ▸ hi)) hq hd (by intro i hi; exact hb i (hn ▸ hi))
  exact ⟨this.1, all_closed_of_done (closedInv_reachable st nW inp s0 inCap outCap closes false hr) this.2⟩

/-- single worker: the send log of channel `k` is exactly the worker's own sends on `k` -/
theorem single_emitted {st : Stage σ α β} {s0 : σ} {inp : Nat → Nat} {p : Pool σ α β}
    (h : Inv st s0 inp p) (h1 : p.nW = 1) (k : Nat) :
    (p.emitted k).map (·.2) = onCh k (p.ws 0).out ++ (((p.ws 0).fout.filter (·.1 == k)).map (·.2)) := by
  have hall : (p.emitted k).filter (·.1 == 0) = p.emitted k := by
    rw [List.filter_eq_self]
    intro x hx
    have := h.tagsOut k x hx
    rw [h1] at this
    have : x.1 = 0 := by omega
    simp [this]
  have := h.outOf 0 k
  rwa [hall] at this

/-- Lift (fail fast): the plain send `exx <- err` on the capacity-1 error channel never blocks — at most
one error is ever sent. Hence `pool_cancel_terminates` / `pool_closes` apply to Lift-mode Map. -/
theorem lift_never_blockedPlain (f : α → Except ε β) (inCap : Nat) (outCap : Nat → Nat) (hcap : 1 ≤ outCap 1)
    (gated : Bool) {p : Pool Unit α (β ⊕ ε)}
    (hr : Reachable (mapS .lift f) (pipePool () inCap outCap [1, 0] gated) p) : ¬ blockedPlain p 0 := by
  have hI := inv_reachable (mapS .lift f) 1 _ () _ outCap [1, 0] gated (by decide) hr
  have hn : p.nW = 1 := by have := reachable_nW hr; simpa [pipePool, Pool.init] using this
  have hc1 : (p.outs 1).cap = outCap 1 := by have := reachable_outCap hr 1; simpa [pipePool, Pool.init] using this
  intro hb
  have hw := hI.worker 0
  unfold blockedPlain at hb
  unfold WInv at hw
  cases hctl : (p.ws 0).ctl with
  | busy s pend aft =>
    cases pend with
    | nil => simp [hctl] at hb
    | cons e rest =>
      simp only [hctl] at hb hw
      obtain ⟨hmode, hfull⟩ := hb
      obtain ⟨_, hems, _, hfo⟩ := hw
      -- a plain send of this stage goes to channel 1
      have hch : e.ch = 1 := by
        have := StageErr.run_all (mapS .lift f) (fun e => e.mode = .plain → e.ch = 1)
          (by intro s a e he; simp only [mapS] at he; split at he <;> simp_all [catchEm]) () (p.ws 0).hist e
          (by rw [hems]; simp)
        exact this hmode
      -- at most one value is ever sent on channel 1
      have hlen : (onCh 1 ((mapS .lift f).run () (p.ws 0).hist).ems).length ≤ 1 := by
        rw [(StageErr.map_lift_out f _).2.1]
        cases ((p.ws 0).hist.dropWhile (StageErr.isOk f)).head?.bind (StageErr.errVal f) <;> simp
      rw [hems, StageSpec.onCh_append, StageSpec.onCh_cons] at hlen
      simp only [hch, beq_self_eq_true, if_true, List.length_append, List.length_cons] at hlen
      have hout : onCh 1 (p.ws 0).out = [] := by
        cases h : onCh 1 (p.ws 0).out with
        | nil => rfl
        | cons x xs => rw [h] at hlen; simp at hlen; omega
      have hem := single_emitted hI hn 1
      rw [hout, hfo] at hem
      have hfifo := hI.fifoOut 1
      rw [hem] at hfifo
      have hbuf : (p.outs 1).buf = [] := by
        simp at hfifo; exact hfifo.2
      rw [hch, hbuf, hc1] at hfull
      simp at hfull; omega
  | exiting s fin why =>
    cases fin with
    | nil => simp [hctl] at hb
    | cons x rest =>
      simp only [hctl] at hw
      have := hw.2.2.2.2.2.2
      simp [mapS] at this
  | idle s => simp [hctl] at hb
  | calling s a => simp [hctl] at hb
  | exited s why => simp [hctl] at hb

/-- Fold: the exit-path send `done <- acc` on the capacity-1 result channel never blocks (it is the only
send). Hence Fold always terminates after cancel and closes `done`. -/
theorem fold_never_blockedPlain (c : α → α → α) (e : α) (inCap : Nat) (outCap : Nat → Nat) (hcap : 1 ≤ outCap 0)
    (gated : Bool) {p : Pool α α α}
    (hr : Reachable (foldS c) (pipePool e inCap outCap [0] gated) p) : ¬ blockedPlain p 0 := by
  have hI := inv_reachable (foldS c) 1 _ e _ outCap [0] gated (by decide) hr
  have hn : p.nW = 1 := by have := reachable_nW hr; simpa [pipePool, Pool.init] using this
  have hc0 : (p.outs 0).cap = outCap 0 := by have := reachable_outCap hr 0; simpa [pipePool, Pool.init] using this
  intro hb
  have hw := hI.worker 0
  have hpre := worker_out_prefix hI 0
  rw [(StageSpec.fold_out c e _).1] at hpre
  have hout : (p.ws 0).out = [] := List.prefix_nil.mp hpre
  unfold blockedPlain at hb
  unfold WInv at hw
  cases hctl : (p.ws 0).ctl with
  | busy s pend aft =>
    cases pend with
    | nil => simp [hctl] at hb
    | cons x rest =>
      simp only [hctl] at hw
      have := hw.2.1
      rw [(StageSpec.fold_out c e _).1] at this
      simp at this
  | exiting s fin why =>
    cases fin with
    | nil => simp [hctl] at hb
    | cons x rest =>
      obtain ⟨k, v⟩ := x
      simp only [hctl] at hb hw
      have hfin := hw.2.2.2.2.2.2
      simp only [foldS] at hfin
      have hfo : (p.ws 0).fout = [] ∧ k = 0 := by
        cases hf : (p.ws 0).fout with
        | nil => rw [hf] at hfin; simp at hfin; exact ⟨rfl, hfin.1.1⟩
        | cons y ys => rw [hf] at hfin; simp at hfin
      have hem := single_emitted hI hn 0
      rw [hout, hfo.1] at hem
      have hfifo := hI.fifoOut 0
      rw [hem] at hfifo
      have hbuf : (p.outs 0).buf = [] := by simp [StageSpec.onCh_nil] at hfifo; exact hfifo.2
      rw [hfo.2, hbuf, hc0] at hb
      simp at hb; omega
  | idle s => simp [hctl] at hb
  | calling s a => simp [hctl] at hb
  | exited s why => simp [hctl] at hb

/-! instances of the side condition: the stages of `pipe`/`fork` whose sends are all `select` sends -/

theorem filter_sel (f : α → Except ε Bool) : ∀ s a, ∀ e ∈ ((filterS f).react s a).2.1, e.mode = .sel := by
  intro s a e he; simp only [filterS] at he; split at he <;> simp_all
theorem partition_sel (f : α → Except ε Bool) : ∀ s a, ∀ e ∈ ((partitionS f).react s a).2.1, e.mode = .sel := by
  intro s a e he; simp only [partitionS] at he; split at he <;> simp_all
theorem takeWhile_sel (f : α → Except ε Bool) : ∀ s a, ∀ e ∈ ((takeWhileS f).react s a).2.1, e.mode = .sel := by
  intro s a e he; simp only [takeWhileS] at he; split at he <;> simp_all
theorem take_sel : ∀ s a, ∀ e ∈ ((takeS (α := α)).react s a).2.1, e.mode = .sel := by
  intro s a e he; simp_all [takeS]
theorem copy_sel : ∀ s a, ∀ e ∈ ((copyS (α := α)).react s a).2.1, e.mode = .sel := by
  intro s a e he; simp_all [copyS]
theorem map_try_sel (f : α → Except ε β) : ∀ s a, ∀ e ∈ ((mapS .try_ f).react s a).2.1, e.mode = .sel := by
  intro s a e he; simp only [mapS] at he; split at he <;> simp_all [catchEm]
theorem fmap_try_sel (g : α → List β × Option ε) : ∀ s a, ∀ e ∈ ((fmapS .try_ g).react s a).2.1, e.mode = .sel := by
  intro s a e he
  simp only [fmapS] at he
  split at he
  · simp only [List.mem_map] at he; obtain ⟨b, _, rfl⟩ := he; rfl
  · simp only [List.mem_append, List.mem_map, List.mem_singleton] at he
    rcases he with ⟨b, _, rfl⟩ | rfl
    · rfl
    · simp [catchEm]
theorem forEach_sel : ∀ s a, ∀ e ∈ ((forEachS (α := α)).react s a).2.1, e.mode = .sel := by
  intro s a e he; simp_all [forEachS]
theorem void_sel : ∀ s a, ∀ e ∈ ((voidS (α := α)).react s a).2.1, e.mode = .sel := by
  intro s a e he; simp_all [voidS]

/-! ### Throttling (two goroutines + timer: `Golem.Go.Throttle`), every ops ≥ 1, interval, capacity, schedule -/

section Throttling
open Golem.Go.Throttle
variable {γ : Type} {ops interval c : Nat} {p : Golem.Go.Throttle.Net γ}

theorem throttling_no_panic (hr : Golem.Go.Throttle.Reachable (Golem.Go.Throttle.init ops interval c) p) :
    p.panicked = false := Golem.Props.C13.throttle_no_panic hr

theorem throttling_prefix (hr : Golem.Go.Throttle.Reachable (Golem.Go.Throttle.init ops interval c) p) :
    p.delivered <+: p.sent := Golem.Props.C13.throttle_prefix hr

/-- input closed and everything delivered: the data goroutine returns and `out` closes (the pacer may stay until cancel) -/
theorem throttling_closes (hops : 1 ≤ ops) (hr : Golem.Go.Throttle.Reachable (Golem.Go.Throttle.init ops interval c) p)
    (hcl : p.inp.closed = true) (hall : p.delivered = p.sent) :
    Acc (fun (q p : Golem.Go.Throttle.Net γ) => q ∈ Golem.Go.Throttle.procNext p) p ∧
    ∀ q, Golem.Go.Throttle.ProcStar p q → Golem.Go.Throttle.procNext q = [] → (∃ w, q.dc = .exited w) ∧ q.out.closed = true :=
  Golem.Props.C13.throttle_closes hops hr hcl hall

/-- cancelled with the input closed: both goroutines return and `out`, `ctl` close, nobody receiving -/
theorem throttling_cancel_terminates (hops : 1 ≤ ops) (hr : Golem.Go.Throttle.Reachable (Golem.Go.Throttle.init ops interval c) p)
    (hc : p.cancelled = true) (hcl : p.inp.closed = true) :
    Acc (fun (q p : Golem.Go.Throttle.Net γ) => q ∈ Golem.Go.Throttle.procNext p) p ∧
    ∀ q, Golem.Go.Throttle.ProcStar p q → Golem.Go.Throttle.procNext q = [] →
      q.pc = .exited ∧ (∃ w, q.dc = .exited w) ∧ q.out.closed = true ∧ q.ctl.closed = true :=
  Golem.Props.C13.throttle_cancel_terminates hops hr hc hcl
end Throttling

/-! ### the sources Emit and Unfold (`Golem.Go.Sources`), every capacity, error mode, function, schedule -/
section Sources
open Golem.Go.Sources
variable {β' ε' : Type}

theorem source_no_panic (P : Fn β' ε') (cap : Nat) (seed : β') {p : Src β' ε'}
    (hr : Golem.Go.Sources.Reachable P (initEmit P.mode cap) p ∨ Golem.Go.Sources.Reachable P (initUnfold P.mode cap seed) p) :
    p.panicked = false := Golem.Props.C11.no_panic P cap seed hr

theorem emit_prefix (P : Fn β' ε') (cap : Nat) {p : Src β' ε'}
    (hr : Golem.Go.Sources.Reachable P (initEmit P.mode cap) p) (m : Nat) (hm : p.iters ≤ m) :
    p.delivered.map (·.1) <+: okVals P m ∧ p.errsDelivered.map (·.1) <+: errVals P m :=
  Golem.Props.C11.emit_delivered_prefix P cap hr m hm

theorem unfold_prefix (P : Fn β' ε') (cap : Nat) (seed : β') {p : Src β' ε'}
    (hr : Golem.Go.Sources.Reachable P (initUnfold P.mode cap seed) p) (m : Nat)
    (hm : p.delivered.length + p.out.buf.length ≤ m) :
    p.delivered.map (·.1) <+: iterates P seed m := Golem.Props.C11.unfold_delivered_prefix P cap seed hr m hm

/-- after cancel a source at rest has exited with both channels closed, or (Emit) sits in its one
non-cancellable Sleep; every select has its Done arm enabled; every process move decreases the variant -/
theorem source_cancel_terminates (P : Fn β' ε') {p0 p : Src β' ε'} (h0 : Inv P p0)
    (hr : Golem.Go.Sources.Reachable P p0 p) :
    (∀ q, q ∈ Golem.Go.Sources.procNext P p → variant q < variant p) ∧
    (p.cancelled = true → Golem.Go.Sources.procNext P p = [] →
      (p.pc = .exited ∧ p.out.closed = true ∧ p.exx.closed = true) ∨ ∃ i w, p.pc = .eSleep i w ∧ p.now < w) :=
  ⟨(Golem.Props.C11.source_cancel_stops P h0 hr).1, (Golem.Props.C11.source_cancel_stops P h0 hr).2.2.1⟩

theorem unfold_cancel_terminates (P : Fn β' ε') (cap : Nat) (seed : β') {p : Src β' ε'}
    (hr : Golem.Go.Sources.Reachable P (initUnfold P.mode cap seed) p) (hc : p.cancelled = true)
    (hs : Golem.Go.Sources.procNext P p = []) :
    p.pc = .exited ∧ p.out.closed = true ∧ p.exx.closed = true :=
  Golem.Props.C11.unfold_cancel_stops P cap seed hr hc hs
end Sources

end Golem.Props.C06
