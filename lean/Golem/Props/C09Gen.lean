/-
C09, translation tie — the fork stages of pipe/fork/fork.go (and `catch`/`errch` of pipe/fork/function.go) as
REGENERATED from the source on this run are the `forkPool`s the theorems of Props/C09 quantify over; the one-line
wrappers delegate to the `pipe` stage of the same name with the arguments in order.
-/
import Golem.Props.C09
import Golem.Props.Stage.ForkCatch
import Golem.Props.Stage.ForkMap
import Golem.Props.Stage.ForkFMap
import Golem.Props.Stage.ForkFilter
import Golem.Props.Stage.ForkPartition
import Golem.Props.Stage.ForkForEach
import Golem.Props.Stage.ForkVoid
namespace Golem.Props.C09
open Golem.Go Golem.Go.Stage Golem.Go.Pool Golem.Model Golem.Model.DSL Golem.Props.Stage

variable {α β ε : Type}

theorem gen_fork_closes_nodup :
    Gen.Fork.Map.cfg.closes.Nodup ∧ Gen.Fork.FMap.cfg.closes.Nodup ∧ Gen.Fork.Filter.cfg.closes.Nodup ∧
    Gen.Fork.Partition.cfg.closes.Nodup ∧ Gen.Fork.ForEach.cfg.closes.Nodup ∧ Gen.Fork.Void.cfg.closes.Nodup := by decide

/-- every regenerated fork stage starts exactly `par` workers and closes through the WaitGroup closer -/
theorem gen_fork_layout :
    (Gen.Fork.Map.cfg.workers, Gen.Fork.Map.cfg.closer) = (.par, .waitGroup) ∧
    (Gen.Fork.FMap.cfg.workers, Gen.Fork.FMap.cfg.closer) = (.par, .waitGroup) ∧
    (Gen.Fork.Filter.cfg.workers, Gen.Fork.Filter.cfg.closer) = (.par, .waitGroup) ∧
    (Gen.Fork.Partition.cfg.workers, Gen.Fork.Partition.cfg.closer) = (.par, .waitGroup) ∧
    (Gen.Fork.ForEach.cfg.workers, Gen.Fork.ForEach.cfg.closer) = (.par, .waitGroup) ∧
    (Gen.Fork.Void.cfg.workers, Gen.Fork.Void.cfg.closer) = (.par, .waitGroup) := by decide

/-- the regenerated `fork.Map` (Try mode): delivered ++ buffered is a permutation of the images -/
theorem fork_map_perm_gen (f : α → β × Option ε) (g : α → β) (hf : ∀ a, f a = (g a, none))
    (par inCap : Nat) (gated : Bool) (hpar : 1 ≤ par) {p : Pool Unit α (β ⊕ ε)}
    (hr : Reachable (mkStage (Gen.Fork.Map.body f (ForkCatch.catchOf .try_)) Gen.Fork.Map.final)
            (Gen.Fork.Map.cfg.pool Gen.Fork.Map.init (fun _ => inCap) par 0 (ForkCatch.errchOf .try_) gated) p)
    (hc : p.cancelled = false) (hx : p.allExited = true) :
    (p.delivered 0 ++ (p.outs 0).buf).Perm ((p.sent 0).map fun a => Sum.inl (g a)) := by
  rw [ForkMap.stage_gen, ForkMap.cfg_gen, Cfg.pool_par _ rfl] at hr
  exact fork_map_perm (toExcept f) g (by intro a; simp [toExcept, hf]) par inCap _ gated hpar hr hc hx

/-- the regenerated `fork.Filter` -/
theorem fork_filter_perm_gen (f : α → Bool × Option ε) (pr : α → Bool) (hf : ∀ a, f a = (pr a, none))
    (par inCap : Nat) (errch : Nat → Nat) (gated : Bool) (hpar : 1 ≤ par) {p : Pool Unit α α}
    (hr : Reachable (mkStage (Gen.Fork.Filter.body f) Gen.Fork.Filter.final)
            (Gen.Fork.Filter.cfg.pool Gen.Fork.Filter.init (fun _ => inCap) par 0 errch gated) p)
    (hc : p.cancelled = false) (hx : p.allExited = true) :
    (p.delivered 0 ++ (p.outs 0).buf).Perm ((p.sent 0).filter pr) := by
  rw [ForkFilter.stage_gen, ForkFilter.cfg_gen, Cfg.pool_par _ rfl] at hr
  exact fork_filter_perm (toExcept f) pr (by intro a; simp [toExcept, hf]) par inCap _ gated hpar hr hc hx

/-- the wrappers of package fork hand their arguments to the `pipe` stage of the same name, in order -/
theorem gen_fork_wrappers :
    Gen.Fork.Join.delegate = ("pipe.Join", ["ctx", "in..."]) ∧
    Gen.Fork.Take.delegate = ("pipe.Take", ["ctx", "in", "n"]) ∧
    Gen.Fork.TakeWhile.delegate = ("pipe.TakeWhile", ["ctx", "in", "f.pipef()"]) ∧
    Gen.Fork.Throttling.delegate = ("pipe.Throttling", ["ctx", "in", "ops", "interval"]) ∧
    Gen.Fork.Emit.delegate = ("pipe.Emit", ["ctx", "cap", "frequency", "emit.pipef()"]) ∧
    Gen.Fork.Unfold.delegate = ("pipe.Unfold", ["ctx", "cap", "seed", "f.pipef()"]) ∧
    Gen.Fork.Seq.delegate = ("pipe.Seq", ["xs..."]) ∧
    Gen.Fork.ToSeq.delegate = ("pipe.ToSeq", ["ch"]) ∧
    Gen.Fork.StdErr.delegate = ("pipe.StdErr", ["out", "exx"]) := by decide

/-- `pipef()` keeps the error mode when a fork morphism is handed to a `pipe` stage by the wrappers: fail-fast (`pure`)
becomes `pipe.Lift`, try-and-continue (`try`) becomes `pipe.Try` -/
theorem gen_pipef_keeps_mode : Gen.Fork.pure_pipef = "pipe.Lift" ∧ Gen.Fork.try_pipef = "pipe.Try" := by decide

end Golem.Props.C09
