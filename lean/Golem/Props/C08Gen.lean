/-
C08, translation tie — the pump goroutine of `pipe.New` (pipe/unbound.go) as compiled from the working tree on this
run (go/xlate family `cfg`, Gen/PipeNewCFG.lean: structured control flow, `select` with arm bodies, break / continue /
return, deferred close, inlined closures and helpers → minimised control-flow graph, numbered breadth-first) EQUALS
`Model/PumpCFG.pumpGraph` (`new_graph_gen`), and the successor function `pumpNext` of the network model
`Go/Unbound.lean` — which every theorem of Props/C08 is about — IS the interpretation of that graph, program point by
control point (`pump_is_graph`, `step_wf`, `graph_step_sound`, `graph_step_complete`, `graph_init`).
A rewrite that keeps the control flow compiles to the same graph.  The linked queue (pipe/queue.go) is translated
statement by statement into the pointer-program monad of Model/QueueDSL.lean (go/xlate family `queue`) and proved equal
to the arena functions of Model/Queue.lean (`enq_gen`, `deq_gen`, `head_gen`, `emit_gen`); only `newq` keeps the
syntactic tie.
-/
import Golem.Props.C08
import Golem.Gen.PipeText
import Golem.Gen.PipeNewCFG
import Golem.Model.GoText
import Golem.Model.PumpCFG
import Golem.Gen.PipeQueue
import Golem.Model.QueueDSL
namespace Golem.Props.C08
open Golem.Model Golem.Go Golem.Go.Unbound Golem.Model.CFG

variable {α : Type}

/-- the graph compiled from the working tree is the one written next to the model -/
theorem new_graph_gen : Gen.PipeNew.graph = pumpGraph := by decide

/-- both channels are made with the requested capacity -/
theorem new_caps_gen : Gen.PipeNew.caps = ["cap", "cap"] := by decide

/-- the model's successor function of the pump IS the interpretation of the graph: for every configuration (program point,
register, network state) the graph's successors, read as model states, are exactly `pumpNext` of the state it stands for -/
theorem pump_is_graph (c : Conf α) (h : WF c) :
    (step pumpGraph c).map abs = pumpNext (abs c) := by
  obtain ⟨node, reg, st⟩ := c
  obtain ⟨hlt, hreg⟩ := h
  simp only at hlt hreg
  have : node = 0 ∨ node = 1 ∨ node = 2 ∨ node = 3 ∨ node = 4 ∨ node = 5 ∨ node = 6 ∨ node = 7 ∨ node = 8 ∨ node = 9 ∨ node = 10 ∨ node = 11 := by omega
  rcases this with rfl | rfl | rfl | rfl | rfl | rfl | rfl | rfl | rfl | rfl | rfl | rfl
  · -- main
    simp [step, pumpGraph, stepNode, stepArm, sendHeadEg, abs, pcOf, pumpNext, recvIn, sendEg, pushEg]
    cases hc : st.cancelled <;> cases hb : st.inp.buf <;> cases hcl : st.inp.closed <;> cases hq : st.mq <;> simp <;>
      (try (cases hec : st.eg.closed <;> simp)) <;> (try split) <;> simp_all [abs, pcOf]
  · -- drain
    simp [step, pumpGraph, stepNode, stepArm, abs, pcOf, pumpNext]
    cases hb : st.inp.buf <;> cases hcl : st.inp.closed <;> simp_all [abs, pcOf]
  · -- mainGot
    have : reg.isSome = true := hreg (Or.inl rfl)
    obtain ⟨x, rfl⟩ := Option.isSome_iff_exists.mp this
    simp [step, pumpGraph, stepNode, abs, pcOf, pumpNext]
  · -- flush
    simp [step, pumpGraph, stepNode, sendHeadEg, abs, pcOf, pumpNext, sendEg, pushEg]
    cases hq : st.mq <;> simp <;> (try (cases hec : st.eg.closed <;> simp)) <;> (try split) <;> simp_all [abs, pcOf]
  · -- mainSent
    simp [step, pumpGraph, stepNode, abs, pcOf, pumpNext]
  · -- drainGot
    have : reg.isSome = true := hreg (Or.inr (Or.inl rfl))
    obtain ⟨x, rfl⟩ := Option.isSome_iff_exists.mp this
    simp [step, pumpGraph, stepNode, abs, pcOf, pumpNext]
  · -- closeIn
    simp [step, pumpGraph, stepNode, abs, pcOf, pumpNext]
    cases hcl : st.inp.closed <;> simp_all [abs, pcOf]
  · -- flushSent
    simp [step, pumpGraph, stepNode, abs, pcOf, pumpNext]
  · -- closeEg
    simp [step, pumpGraph, stepNode, abs, pcOf, pumpNext]
    cases hcl : st.eg.closed <;> simp_all [abs, pcOf]
  · -- range
    simp [step, pumpGraph, stepNode, stepArm, abs, pcOf, pumpNext, recvIn]
    cases hb : st.inp.buf <;> cases hcl : st.inp.closed <;> simp_all [abs, pcOf]
  · -- exited
    simp [step, pumpGraph, stepNode, abs, pcOf, pumpNext]
  · -- rangeGot
    have : reg.isSome = true := hreg (Or.inr (Or.inr rfl))
    obtain ⟨x, rfl⟩ := Option.isSome_iff_exists.mp this
    simp [step, pumpGraph, stepNode, abs, pcOf, pumpNext]

/-- well-formedness as a Boolean, and its preservation -/
def wfB (c : Conf α) : Bool := decide (c.node < 12) && (!(c.node == 2 || c.node == 5 || c.node == 11) || c.reg.isSome)

theorem step_wf (c : Conf α) (h : wfB c = true) : (step pumpGraph c).all wfB = true := by
  obtain ⟨node, reg, st⟩ := c
  simp only [wfB, Bool.and_eq_true, decide_eq_true_eq] at h
  have : node = 0 ∨ node = 1 ∨ node = 2 ∨ node = 3 ∨ node = 4 ∨ node = 5 ∨ node = 6 ∨ node = 7 ∨ node = 8 ∨ node = 9 ∨ node = 10 ∨ node = 11 := by omega
  rcases this with rfl | rfl | rfl | rfl | rfl | rfl | rfl | rfl | rfl | rfl | rfl | rfl
  · cases hc : st.cancelled <;> cases hb : st.inp.buf <;> cases hcl : st.inp.closed <;> cases hq : st.mq <;>
      cases hec : st.eg.closed <;> by_cases hroom : st.eg.buf.length < st.eg.cap <;>
      simp_all [step, pumpGraph, stepNode, stepArm, sendHeadEg, wfB]
  · cases hb : st.inp.buf <;> cases hcl : st.inp.closed <;> simp_all [step, pumpGraph, stepNode, stepArm, wfB]
  · cases hr : reg <;> simp_all [step, pumpGraph, stepNode, wfB]
  · cases hq : st.mq <;> cases hec : st.eg.closed <;> by_cases hroom : st.eg.buf.length < st.eg.cap <;>
      simp_all [step, pumpGraph, stepNode, sendHeadEg, wfB]
  · simp_all [step, pumpGraph, stepNode, wfB]
  · cases hr : reg <;> simp_all [step, pumpGraph, stepNode, wfB]
  · cases hcl : st.inp.closed <;> simp_all [step, pumpGraph, stepNode, wfB]
  · simp_all [step, pumpGraph, stepNode, wfB]
  · cases hec : st.eg.closed <;> simp_all [step, pumpGraph, stepNode, wfB]
  · cases hb : st.inp.buf <;> cases hcl : st.inp.closed <;> simp_all [step, pumpGraph, stepNode, stepArm, wfB]
  · simp_all [step, pumpGraph, stepNode, wfB]
  · cases hr : reg <;> simp_all [step, pumpGraph, stepNode, wfB]

/-- every step of the graph is a step of the model … -/
theorem graph_step_sound (c c' : Conf α) (h : WF c) (hs : c' ∈ step pumpGraph c) : abs c' ∈ pumpNext (abs c) := by
  rw [← pump_is_graph c h]; exact List.mem_map_of_mem hs

/-- … and every step of the model (from a state a configuration stands for) is a step of the graph -/
theorem graph_step_complete (c : Conf α) (h : WF c) (q : Net α) (hq : q ∈ pumpNext (abs c)) :
    ∃ c' ∈ step pumpGraph c, abs c' = q := by
  rw [← pump_is_graph c h] at hq
  obtain ⟨c', hc', rfl⟩ := List.mem_map.mp hq
  exact ⟨c', hc', rfl⟩

/-- the entry of the graph with an empty network is the model's initial state -/
theorem graph_init (cap : Nat) : abs { node := 0, reg := none, st := (Unbound.init cap : Net α) } = Unbound.init cap := rfl

theorem wf_iff (c : Conf α) : WF c ↔ wfB c = true := by
  simp only [WF, wfB, Bool.and_eq_true, decide_eq_true_eq, Bool.or_eq_true, Bool.not_eq_true', beq_iff_eq]
  constructor
  · rintro ⟨h1, h2⟩
    refine ⟨h1, ?_⟩
    by_cases h : c.node = 2 ∨ c.node = 5 ∨ c.node = 11
    · exact Or.inr (h2 h)
    · left
      cases hb : (c.node == 2 || c.node == 5 || c.node == 11)
      · rfl
      · exfalso; apply h
        simp only [Bool.or_eq_true, beq_iff_eq] at hb
        rcases hb with (hb | hb) | hb
        · exact Or.inl hb
        · exact Or.inr (Or.inl hb)
        · exact Or.inr (Or.inr hb)
  · rintro ⟨h1, h2⟩
    refine ⟨h1, fun h => ?_⟩
    rcases h2 with h2 | h2
    · exfalso
      have : (c.node == 2 || c.node == 5 || c.node == 11) = true := by
        simp only [Bool.or_eq_true, beq_iff_eq]
        rcases h with h | h | h
        · exact Or.inl (Or.inl h)
        · exact Or.inl (Or.inr h)
        · exact Or.inr h
      rw [this] at h2; cases h2
    · exact h2

/-! ### the whole network: environment moves and reachability

The environment's moves on the graph semantics (`envNextG`: the two hand-off conditions are read off the KIND of the
program point) are the model's `envNext`, hence the runs of the graph semantics and the runs of the model are the same
runs: every theorem of Props/C08 about `Unbound.Reachable` states is a theorem about the runs of the compiled graph. -/

theorem twelve (k : Nat) (h : k < 12) : k = 0 ∨ k = 1 ∨ k = 2 ∨ k = 3 ∨ k = 4 ∨ k = 5 ∨ k = 6 ∨ k = 7 ∨ k = 8 ∨ k = 9 ∨ k = 10 ∨ k = 11 := by omega

theorem recvReadyG_val (k : Nat) (reg : Option α) (st : Net α) (hk : k < 12) :
    recvReadyG pumpGraph ⟨k, reg, st⟩ = if k = 0 ∨ k = 1 ∨ k = 9 then 1 else 0 := by
  rcases twelve k hk with rfl | rfl | rfl | rfl | rfl | rfl | rfl | rfl | rfl | rfl | rfl | rfl <;> rfl

theorem recvReady_abs (c : Conf α) (h : WF c) : recvReady (abs c) = if c.node = 0 ∨ c.node = 1 then 1 else 0 := by
  obtain ⟨k, reg, st⟩ := c
  obtain ⟨hlt, hreg⟩ := h
  simp only at hlt hreg
  rcases twelve k hlt with rfl | rfl | rfl | rfl | rfl | rfl | rfl | rfl | rfl | rfl | rfl | rfl <;>
    (try (cases reg <;> simp_all [recvReady, abs, pcOf])) <;> simp [recvReady, abs, pcOf]

theorem sendsHead_val (k : Nat) (hk : k < 12) :
    (pumpGraph[k]?).bind Node.sendsHead = if k = 0 then some 4 else if k = 3 then some 7 else none := by
  rcases twelve k hk with rfl | rfl | rfl | rfl | rfl | rfl | rfl | rfl | rfl | rfl | rfl | rfl <;> rfl

theorem abs_st (c : Conf α) : (abs c).inp = c.st.inp ∧ (abs c).eg = c.st.eg ∧ (abs c).mq = c.st.mq ∧ (abs c).sent = c.st.sent ∧
    (abs c).delivered = c.st.delivered ∧ (abs c).cancelled = c.st.cancelled ∧ (abs c).panicked = c.st.panicked := by
  simp [abs]

theorem env_send (c : Conf α) (h : WF c) (hr : c.node = 9 → c.st.inp.closed = true) (v : α) :
    (envNextG pumpGraph c (.send v)).map (fun qo => (abs qo.1, qo.2)) = envNext (abs c) (.send v) := by
  have h1 := recvReadyG_val c.node c.reg c.st h.1
  have h2 := recvReady_abs c h
  have hi : (abs c).inp = c.st.inp := rfl
  simp only [envNext, h2, hi]
  have h1' : recvReadyG pumpGraph c = if c.node = 0 ∨ c.node = 1 ∨ c.node = 9 then 1 else 0 := h1
  simp only [envNextG, h1']
  by_cases hc : c.st.inp.closed = true
  · simp [hc]
  · have h9 : c.node ≠ 9 := fun e => hc (hr e)
    have : (c.node = 0 ∨ c.node = 1 ∨ c.node = 9) ↔ (c.node = 0 ∨ c.node = 1) := by
      constructor
      · rintro (h | h | h)
        · exact Or.inl h
        · exact Or.inr h
        · exact absurd h h9
      · rintro (h | h)
        · exact Or.inl h
        · exact Or.inr (Or.inl h)
    simp only [this, hc]
    generalize (if c.node = 0 ∨ c.node = 1 then 1 else 0) = r
    by_cases hl : c.st.inp.buf.length < c.st.inp.cap + r <;> simp [hl, abs]

theorem env_close_cancel (c : Conf α) :
    (envNextG pumpGraph c .close).map (fun qo => (abs qo.1, qo.2)) = envNext (abs c) .close ∧
    (envNextG pumpGraph c .cancel).map (fun qo => (abs qo.1, qo.2)) = envNext (abs c) .cancel := by
  have hi : (abs c).inp = c.st.inp := rfl
  constructor
  · simp only [envNextG, envNext, hi]; split <;> simp [abs]
  · simp [envNextG, envNext, abs]

theorem handoff_is_graph (c : Conf α) (h : WF c) :
    (handoffG pumpGraph c).map (fun qv => (abs qv.1, qv.2)) = handoff (abs c) := by
  have hs := sendsHead_val c.node h.1
  obtain ⟨node, reg, st⟩ := c
  obtain ⟨hlt, hreg⟩ := h
  simp only at hlt hreg hs
  simp only [handoffG, handoff, hs]
  have he : (abs (⟨node, reg, st⟩ : Conf α)).eg = st.eg := rfl
  have hm : (abs (⟨node, reg, st⟩ : Conf α)).mq = st.mq := rfl
  simp only [he, hm]
  by_cases hb : st.eg.closed = true ∨ st.eg.buf ≠ []
  · simp [hb]
  · simp only [hb, if_false]
    rcases twelve node hlt with rfl | rfl | rfl | rfl | rfl | rfl | rfl | rfl | rfl | rfl | rfl | rfl <;>
      cases hq : st.mq <;> (try (cases reg)) <;> simp_all [abs, pcOf]

theorem env_recv (c : Conf α) (h : WF c) :
    (envNextG pumpGraph c .recv).map (fun qo => (abs qo.1, qo.2)) = envNext (abs c) .recv := by
  have hh := handoff_is_graph c h
  have he : (abs c).eg = c.st.eg := rfl
  simp only [envNextG, envNext, he]
  cases hb : c.st.eg.buf with
  | cons v rest => simp [abs]
  | nil =>
    simp only []
    rw [← hh]
    cases hg : handoffG pumpGraph c with
    | nil => simp [abs]
    | cons x xs => simp [List.map_map, Function.comp_def]

/-- all environment moves -/
theorem env_is_graph (c : Conf α) (h : WF c) (hr : c.node = 9 → c.st.inp.closed = true) (m : Move α) :
    (envNextG pumpGraph c m).map (fun qo => (abs qo.1, qo.2)) = envNext (abs c) m := by
  cases m with
  | send v => exact env_send c h hr v
  | close => exact (env_close_cancel c).1
  | recv => exact env_recv c h
  | cancel => exact (env_close_cancel c).2


/-- invariant of the graph runs (Boolean): a known program point, a value in the register where one is about to be
queued, and the send side closed at the range loop -/
def GInvB (c : Conf α) : Bool :=
  decide (c.node < 12) && (!(c.node == 2 || c.node == 5 || c.node == 11) || c.reg.isSome) && (!(c.node == 9 || c.node == 11) || c.st.inp.closed)

theorem ginv_step (c : Conf α) (h : GInvB c = true) : (step pumpGraph c).all GInvB = true := by
  obtain ⟨node, reg, st⟩ := c
  simp only [GInvB, Bool.and_eq_true, decide_eq_true_eq] at h
  have : node = 0 ∨ node = 1 ∨ node = 2 ∨ node = 3 ∨ node = 4 ∨ node = 5 ∨ node = 6 ∨ node = 7 ∨ node = 8 ∨ node = 9 ∨ node = 10 ∨ node = 11 := by omega
  rcases this with rfl | rfl | rfl | rfl | rfl | rfl | rfl | rfl | rfl | rfl | rfl | rfl
  · cases hc : st.cancelled <;> cases hb : st.inp.buf <;> cases hcl : st.inp.closed <;> cases hq : st.mq <;>
      cases hec : st.eg.closed <;> by_cases hroom : st.eg.buf.length < st.eg.cap <;>
      simp_all [step, pumpGraph, stepNode, stepArm, sendHeadEg, GInvB, pushEg]
  · cases hb : st.inp.buf <;> cases hcl : st.inp.closed <;> simp_all [step, pumpGraph, stepNode, stepArm, GInvB]
  · cases hr : reg <;> simp_all [step, pumpGraph, stepNode, GInvB]
  · cases hq : st.mq <;> cases hec : st.eg.closed <;> by_cases hroom : st.eg.buf.length < st.eg.cap <;>
      simp_all [step, pumpGraph, stepNode, sendHeadEg, GInvB, pushEg]
  · simp_all [step, pumpGraph, stepNode, GInvB]
  · cases hr : reg <;> simp_all [step, pumpGraph, stepNode, GInvB]
  · cases hcl : st.inp.closed <;> simp_all [step, pumpGraph, stepNode, GInvB]
  · simp_all [step, pumpGraph, stepNode, GInvB]
  · cases hec : st.eg.closed <;> simp_all [step, pumpGraph, stepNode, GInvB]
  · cases hb : st.inp.buf <;> cases hcl : st.inp.closed <;> simp_all [step, pumpGraph, stepNode, stepArm, GInvB]
  · simp_all [step, pumpGraph, stepNode, GInvB]
  · cases hr : reg <;> simp_all [step, pumpGraph, stepNode, GInvB]

theorem ginv_mono (n : Nat) (r : Option α) (st st' : Net α) (h : GInvB ⟨n, r, st⟩ = true)
    (hc : st.inp.closed = true → st'.inp.closed = true) : GInvB ⟨n, r, st'⟩ = true := by
  simp only [GInvB, Bool.and_eq_true, Bool.or_eq_true, Bool.not_eq_true', decide_eq_true_eq] at h ⊢
  refine ⟨h.1, ?_⟩
  rcases h.2 with h2 | h2
  · exact Or.inl h2
  · exact Or.inr (hc h2)

theorem ginv_env (c : Conf α) (h : GInvB c = true) (m : Move α) : (envNextG pumpGraph c m).all (fun qo => GInvB qo.1) = true := by
  obtain ⟨node, reg, st⟩ := c
  cases m with
  | send v =>
    simp only [envNextG]
    split
    · simpa using h
    · split
      · simp only [List.all_cons, List.all_nil, Bool.and_true]
        exact ginv_mono node reg st _ h (fun hc => hc)
      · simpa using h
  | close =>
    simp only [envNextG]
    split
    · simpa using h
    · simp only [List.all_cons, List.all_nil, Bool.and_true]
      exact ginv_mono node reg st _ h (fun _ => rfl)
  | cancel =>
    simp only [envNextG, List.all_cons, List.all_nil, Bool.and_true]
    exact ginv_mono node reg st _ h (fun hc => hc)
  | recv =>
    simp only [envNextG]
    cases hb : st.eg.buf with
    | cons v rest =>
      simp only [List.all_cons, List.all_nil, Bool.and_true]
      exact ginv_mono node reg st _ h (fun hc => hc)
    | nil =>
      have hlt : node < 12 := by
        simp only [GInvB, Bool.and_eq_true, decide_eq_true_eq] at h; exact h.1.1
      simp only [GInvB, Bool.and_eq_true, decide_eq_true_eq] at h
      simp only [handoffG]
      rcases twelve node hlt with rfl | rfl | rfl | rfl | rfl | rfl | rfl | rfl | rfl | rfl | rfl | rfl <;>
        cases hq : st.mq <;> cases hec : st.eg.closed <;> simp_all [GInvB, pumpGraph, Node.sendsHead]

theorem ginv_wf (c : Conf α) (h : GInvB c = true) : WF c ∧ (c.node = 9 → c.st.inp.closed = true) := by
  simp only [GInvB, Bool.and_eq_true, Bool.or_eq_true, Bool.not_eq_true', decide_eq_true_eq, beq_iff_eq] at h
  refine ⟨⟨h.1.1, fun hn => ?_⟩, fun h9 => ?_⟩
  · rcases h.1.2 with h2 | h2
    · exfalso
      have : (c.node == 2 || c.node == 5 || c.node == 11) = true := by
        simp only [Bool.or_eq_true, beq_iff_eq]
        rcases hn with hn | hn | hn
        · exact Or.inl (Or.inl hn)
        · exact Or.inl (Or.inr hn)
        · exact Or.inr hn
      rw [this] at h2; cases h2
    · exact h2
  · rcases h.2 with h2 | h2
    · exfalso
      have : (c.node == 9 || c.node == 11) = true := by simp [h9]
      rw [this] at h2; cases h2
    · exact h2

/-- the invariant holds along every run of the graph semantics -/
theorem greachable_inv (cap : Nat) (c : Conf α) (h : GReachable pumpGraph cap c) : GInvB c = true := by
  induction h with
  | init => rfl
  | step _ hs ih =>
    rcases hs with ⟨_, hs⟩ | ⟨m, o, hs⟩
    · exact List.all_eq_true.mp (ginv_step _ ih) _ hs
    · exact List.all_eq_true.mp (ginv_env _ ih m) _ hs

/-- every run of the compiled graph is a run of the model … -/
theorem graph_run_is_model_run (cap : Nat) (c : Conf α) (h : GReachable pumpGraph cap c) : Unbound.Reachable cap (abs c) := by
  induction h with
  | init => exact Unbound.Reachable.init
  | @step c c' hr hs ih =>
    have hi := ginv_wf c (greachable_inv cap c hr)
    refine Unbound.Reachable.step ih ?_
    rcases hs with ⟨hp, hs⟩ | ⟨m, o, hs⟩
    · left
      have : (abs c).panicked = false := hp
      simp only [Unbound.procNext, this]
      exact graph_step_sound c c' hi.1 hs
    · right
      refine ⟨m, o, ?_⟩
      rw [← env_is_graph c hi.1 hi.2 m]
      exact List.mem_map.mpr ⟨(c', o), hs, rfl⟩

/-- … and every run of the model is a run of the compiled graph -/
theorem model_run_is_graph_run (cap : Nat) (p : Net α) (h : Unbound.Reachable cap p) :
    ∃ c, GReachable pumpGraph cap c ∧ abs c = p := by
  induction h with
  | init => exact ⟨_, GReachable.init, rfl⟩
  | @step p q _ hs ih =>
    obtain ⟨c, hc, rfl⟩ := ih
    have hi := ginv_wf c (greachable_inv cap c hc)
    rcases hs with hs | ⟨m, o, hs⟩
    · have hp : (abs c).panicked = false := by
        cases hpn : (abs c).panicked
        · rfl
        · simp [Unbound.procNext, hpn] at hs
      simp only [Unbound.procNext, hp] at hs
      obtain ⟨c', hc', rfl⟩ := graph_step_complete c hi.1 _ hs
      exact ⟨c', GReachable.step hc (Or.inl ⟨hp, hc'⟩), rfl⟩
    · rw [← env_is_graph c hi.1 hi.2 m] at hs
      obtain ⟨⟨c', o'⟩, hc', he⟩ := List.mem_map.mp hs
      simp only [Prod.mk.injEq] at he
      exact ⟨c', GReachable.step hc (Or.inr ⟨m, o', hc'⟩), he.1⟩

/-! ### pipe/queue.go: the pointer programs as regenerated (go/xlate family `queue`) are the arena functions of
Model/Queue.lean, which `queue_refines_fifo` relates to the backlog list of the pump's model -/

section Queue
open Golem.Model.Queue Golem.Model.QDSL

attribute [local simp] bind QM.bind pure QM.pure getHead getTail setHead setTail nextOf valueOf setNext setValue poolGet poolPut deref

@[simp] theorem setNode_tail (q : Queue α) (i : Nat) (n : Node α) : (setNode q i n).tail = q.tail := rfl
@[simp] theorem setNode_head (q : Queue α) (i : Nat) (n : Node α) : (setNode q i n).head = q.head := rfl
@[simp] theorem setNode_size (q : Queue α) (i : Nat) (n : Node α) : (setNode q i n).size = q.size := rfl
@[simp] theorem setNode_pool (q : Queue α) (i : Nat) (n : Node α) : (setNode q i n).pool = q.pool := rfl
@[simp] theorem setNode_node_same (q : Queue α) (i : Nat) (n : Node α) : (setNode q i n).node i = n := by simp [setNode]

@[simp] theorem setNode_setNode (q : Queue α) (i : Nat) (a b : Node α) : setNode (setNode q i a) i b = setNode q i b := by
  simp only [setNode]
  congr 1
  funext j
  by_cases hj : j = i <;> simp [hj]

/-- `enq(&x, queue)` as regenerated never dereferences nil and leaves the arena `Model.Queue.enq` describes -/
theorem enq_gen (c : Option Nat) (x : α) (q : Queue α) :
    Gen.PipeQueue.enq c x q = some ((), Golem.Model.Queue.enq c x q) := by
  simp only [Gen.PipeQueue.enq, Golem.Model.Queue.enq]
  generalize hg : Golem.Model.Queue.get c q = r
  obtain ⟨val, q1⟩ := r
  cases ht : q1.tail <;> cases hh : q1.head <;> simp [hg, ht, hh]

/-- `deq(queue)` as regenerated: the nil dereference on an empty queue, else the value pointer and the new arena -/
theorem deq_gen (q : Queue α) : Gen.PipeQueue.deq q = Golem.Model.Queue.deq q := by
  simp only [Gen.PipeQueue.deq, Golem.Model.Queue.deq]
  cases h : q.head with
  | none => simp [h]
  | some v =>
    by_cases ht : q.tail = some v
    · simp [h, ht]
    · have ht' : ¬ some v = q.tail := fun e => ht e.symm
      simp [h, ht, ht']

/-- `head(queue)`: the zero value on an empty queue, else the value the head node points to -/
theorem head_gen (zero : α) (q : Queue α) :
    Gen.PipeQueue.head zero q = (Golem.Model.Queue.head zero q).map fun a => (a, q) := by
  simp only [Gen.PipeQueue.head, Golem.Model.Queue.head]
  cases h : q.head <;> simp [h]

/-- `emit(ch, queue)`: nil (the select arm is disabled) iff the queue is empty; the queue is not touched -/
theorem emit_gen (q : Queue α) : Gen.PipeQueue.emit q = some (Golem.Model.Queue.emit q, q) := by
  simp only [Gen.PipeQueue.emit, Golem.Model.Queue.emit]
  cases h : q.head <;> simp [h]

end Queue

/-- `newq` (allocation of the empty queue and its `sync.Pool`): syntactic tie -/
theorem newq_text : Gen.PipeText.newq_text = GoText.newq_text := rfl

end Golem.Props.C08
