/-
C08, syntactic tie — `pipe.New` (pipe/unbound.go) and the linked queue (pipe/queue.go) as printed from the working
tree on this run (go/xlate family `gotext`, Gen/PipeText.lean) are, line for line, the text the network model
Go/Unbound.lean and the pointer-level model Model/Queue.lean were written against (Model/GoText.lean, annotated with
the control point each line became).  No semantic translation exists for a `select` whose arms have bodies, so any
edit — also a harmless one — breaks these equalities and is then judged by the enlarged lock-step search.
-/
import Golem.Props.C08
import Golem.Gen.PipeText
import Golem.Model.GoText
namespace Golem.Props.C08
open Golem.Model

theorem new_text : Gen.PipeText.New_text = GoText.New_text := rfl
theorem newq_text : Gen.PipeText.newq_text = GoText.newq_text := rfl
theorem enq_text : Gen.PipeText.enq_text = GoText.enq_text := rfl
theorem deq_text : Gen.PipeText.deq_text = GoText.deq_text := rfl
theorem head_text : Gen.PipeText.head_text = GoText.head_text := rfl
theorem emit_text : Gen.PipeText.emit_text = GoText.emit_text := rfl

end Golem.Props.C08
