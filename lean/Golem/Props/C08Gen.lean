/-
C08, translation tie — the pump goroutine of `pipe.New` (pipe/unbound.go) as compiled from the working tree on this
run (go/xlate family `cfg`, Gen/PipeNewCFG.lean: structured control flow, `select` with arm bodies, break / continue /
return, deferred close, inlined closures and helpers → minimised control-flow graph, numbered breadth-first) EQUALS
`Model/PumpCFG.pumpGraph` (`new_graph_gen`), and the successor function `pumpNext` of the network model
`Go/Unbound.lean` — which every theorem of Props/C08 is about — IS the interpretation of that graph, program point by
control point (`pump_is_graph`, `step_wf`, `graph_step_sound`, `graph_step_complete`, `graph_init`).
A rewrite that keeps the control flow compiles to the same graph.  The linked queue (pipe/queue.go) is translated
statement by statement into the pointer-program monad of Model/QueueDSL.lean (go/xlate family `queue`) and proved equal
to the arena functions of Model/Queue.lean (`enq_gen`, `deq_gen`, `head_gen`, `emit_gen`); only `newq` keeps the
syntactic tie.
-/
import Golem.Props.C08
import Golem.Gen.PipeText
import Golem.Gen.PipeNewCFG
import Golem.Model.GoText
import Golem.Model.PumpCFG
import Golem.Gen.PipeQueue
import Golem.Model.QueueDSL
namespace Golem.Props.C08
open Golem.Model Golem.Go Golem.Go.Unbound Golem.Model.CFG

variable {α : Type}

/-- the graph compiled from the working tree is the one written next to the model -/
theorem new_graph_gen : Gen.PipeNew.graph = pumpGraph := by decide

/-- both channels are made with the requested capacity -/
theorem new_caps_gen : Gen.PipeNew.caps = ["cap", "cap"] := by decide

/-- the model's successor function of the pump IS the interpretation of the graph: for every configuration (program point,
register, network state) the graph's successors, read as model states, are exactly `pumpNext` of the state it stands for -/
theorem pump_is_graph (c : Conf α) (h : WF c) :
    (step pumpGraph c).map abs = pumpNext (abs c) := by
  obtain ⟨node, reg, st⟩ := c
  obtain ⟨hlt, hreg⟩ := h
  simp only at hlt hreg
  have : node = 0 ∨ node = 1 ∨ node = 2 ∨ node = 3 ∨ node = 4 ∨ node = 5 ∨ node = 6 ∨ node = 7 ∨ node = 8 ∨ node = 9 ∨ node = 10 ∨ node = 11 := by omega
  rcases this with rfl | rfl | rfl | rfl | rfl | rfl | rfl | rfl | rfl | rfl | rfl | rfl
  · -- main
    simp [step, pumpGraph, stepNode, stepArm, sendHeadEg, abs, pcOf, pumpNext, recvIn, sendEg, pushEg]
    cases hc : st.cancelled <;> cases hb : st.inp.buf <;> cases hcl : st.inp.closed <;> cases hq : st.mq <;> simp <;>
      (try (cases hec : st.eg.closed <;> simp)) <;> (try split) <;> simp_all [abs, pcOf]
  · -- drain
    simp [step, pumpGraph, stepNode, stepArm, abs, pcOf, pumpNext]
    cases hb : st.inp.buf <;> cases hcl : st.inp.closed <;> simp_all [abs, pcOf]
  · -- mainGot
    have : reg.isSome = true := hreg (Or.inl rfl)
    obtain ⟨x, rfl⟩ := Option.isSome_iff_exists.mp this
    simp [step, pumpGraph, stepNode, abs, pcOf, pumpNext]
  · -- flush
    simp [step, pumpGraph, stepNode, sendHeadEg, abs, pcOf, pumpNext, sendEg, pushEg]
    cases hq : st.mq <;> simp <;> (try (cases hec : st.eg.closed <;> simp)) <;> (try split) <;> simp_all [abs, pcOf]
  · -- mainSent
    simp [step, pumpGraph, stepNode, abs, pcOf, pumpNext]
  · -- drainGot
    have : reg.isSome = true := hreg (Or.inr (Or.inl rfl))
    obtain ⟨x, rfl⟩ := Option.isSome_iff_exists.mp this
    simp [step, pumpGraph, stepNode, abs, pcOf, pumpNext]
  · -- closeIn
    simp [step, pumpGraph, stepNode, abs, pcOf, pumpNext]
    cases hcl : st.inp.closed <;> simp_all [abs, pcOf]
  · -- flushSent
    simp [step, pumpGraph, stepNode, abs, pcOf, pumpNext]
  · -- closeEg
    simp [step, pumpGraph, stepNode, abs, pcOf, pumpNext]
    cases hcl : st.eg.closed <;> simp_all [abs, pcOf]
  · -- range
    simp [step, pumpGraph, stepNode, stepArm, abs, pcOf, pumpNext, recvIn]
    cases hb : st.inp.buf <;> cases hcl : st.inp.closed <;> simp_all [abs, pcOf]
  · -- exited
    simp [step, pumpGraph, stepNode, abs, pcOf, pumpNext]
  · -- rangeGot
    have : reg.isSome = true := hreg (Or.inr (Or.inr rfl))
    obtain ⟨x, rfl⟩ := Option.isSome_iff_exists.mp this
    simp [step, pumpGraph, stepNode, abs, pcOf, pumpNext]

/-- well-formedness as a Boolean, and its preservation -/
def wfB (c : Conf α) : Bool := decide (c.node < 12) && (!(c.node == 2 || c.node == 5 || c.node == 11) || c.reg.isSome)

theorem step_wf (c : Conf α) (h : wfB c = true) : (step pumpGraph c).all wfB = true := by
  obtain ⟨node, reg, st⟩ := c
  simp only [wfB, Bool.and_eq_true, decide_eq_true_eq] at h
  have : node = 0 ∨ node = 1 ∨ node = 2 ∨ node = 3 ∨ node = 4 ∨ node = 5 ∨ node = 6 ∨ node = 7 ∨ node = 8 ∨ node = 9 ∨ node = 10 ∨ node = 11 := by omega
  rcases this with rfl | rfl | rfl | rfl | rfl | rfl | rfl | rfl | rfl | rfl | rfl | rfl
  · cases hc : st.cancelled <;> cases hb : st.inp.buf <;> cases hcl : st.inp.closed <;> cases hq : st.mq <;>
      cases hec : st.eg.closed <;> by_cases hroom : st.eg.buf.length < st.eg.cap <;>
      simp_all [step, pumpGraph, stepNode, stepArm, sendHeadEg, wfB]
  · cases hb : st.inp.buf <;> cases hcl : st.inp.closed <;> simp_all [step, pumpGraph, stepNode, stepArm, wfB]
  · cases hr : reg <;> simp_all [step, pumpGraph, stepNode, wfB]
  · cases hq : st.mq <;> cases hec : st.eg.closed <;> by_cases hroom : st.eg.buf.length < st.eg.cap <;>
      simp_all [step, pumpGraph, stepNode, sendHeadEg, wfB]
  · simp_all [step, pumpGraph, stepNode, wfB]
  · cases hr : reg <;> simp_all [step, pumpGraph, stepNode, wfB]
  · cases hcl : st.inp.closed <;> simp_all [step, pumpGraph, stepNode, wfB]
  · simp_all [step, pumpGraph, stepNode, wfB]
  · cases hec : st.eg.closed <;> simp_all [step, pumpGraph, stepNode, wfB]
  · cases hb : st.inp.buf <;> cases hcl : st.inp.closed <;> simp_all [step, pumpGraph, stepNode, stepArm, wfB]
  · simp_all [step, pumpGraph, stepNode, wfB]
  · cases hr : reg <;> simp_all [step, pumpGraph, stepNode, wfB]

/-- every step of the graph is a step of the model … -/
theorem graph_step_sound (c c' : Conf α) (h : WF c) (hs : c' ∈ step pumpGraph c) : abs c' ∈ pumpNext (abs c) := by
  rw [← pump_is_graph c h]; exact List.mem_map_of_mem hs

/-- … and every step of the model (from a state a configuration stands for) is a step of the graph -/
theorem graph_step_complete (c : Conf α) (h : WF c) (q : Net α) (hq : q ∈ pumpNext (abs c)) :
    ∃ c' ∈ step pumpGraph c, abs c' = q := by
  rw [← pump_is_graph c h] at hq
  obtain ⟨c', hc', rfl⟩ := List.mem_map.mp hq
  exact ⟨c', hc', rfl⟩

/-- the entry of the graph with an empty network is the model's initial state -/
theorem graph_init (cap : Nat) : abs { node := 0, reg := none, st := (Unbound.init cap : Net α) } = Unbound.init cap := rfl

theorem wf_iff (c : Conf α) : WF c ↔ wfB c = true := by
  simp only [WF, wfB, Bool.and_eq_true, decide_eq_true_eq, Bool.or_eq_true, Bool.not_eq_true', beq_iff_eq]
  constructor
  · rintro ⟨h1, h2⟩
    refine ⟨h1, ?_⟩
    by_cases h : c.node = 2 ∨ c.node = 5 ∨ c.node = 11
    · exact Or.inr (h2 h)
    · left
      cases hb : (c.node == 2 || c.node == 5 || c.node == 11)
      · rfl
      · exfalso; apply h
        simp only [Bool.or_eq_true, beq_iff_eq] at hb
        rcases hb with (hb | hb) | hb
        · exact Or.inl hb
        · exact Or.inr (Or.inl hb)
        · exact Or.inr (Or.inr hb)
  · rintro ⟨h1, h2⟩
    refine ⟨h1, fun h => ?_⟩
    rcases h2 with h2 | h2
    · exfalso
      have : (c.node == 2 || c.node == 5 || c.node == 11) = true := by
        simp only [Bool.or_eq_true, beq_iff_eq]
        rcases h with h | h | h
        · exact Or.inl (Or.inl h)
        · exact Or.inl (Or.inr h)
        · exact Or.inr h
      rw [this] at h2; cases h2
    · exact h2

/-! ### pipe/queue.go: the pointer programs as regenerated (go/xlate family `queue`) are the arena functions of
Model/Queue.lean, which `queue_refines_fifo` relates to the backlog list of the pump's model -/

section Queue
open Golem.Model.Queue Golem.Model.QDSL

attribute [local simp] bind QM.bind pure QM.pure getHead getTail setHead setTail nextOf valueOf setNext setValue poolGet poolPut deref

@[simp] theorem setNode_tail (q : Queue α) (i : Nat) (n : Node α) : (setNode q i n).tail = q.tail := rfl
@[simp] theorem setNode_head (q : Queue α) (i : Nat) (n : Node α) : (setNode q i n).head = q.head := rfl
@[simp] theorem setNode_size (q : Queue α) (i : Nat) (n : Node α) : (setNode q i n).size = q.size := rfl
@[simp] theorem setNode_pool (q : Queue α) (i : Nat) (n : Node α) : (setNode q i n).pool = q.pool := rfl
@[simp] theorem setNode_node_same (q : Queue α) (i : Nat) (n : Node α) : (setNode q i n).node i = n := by simp [setNode]

@[simp] theorem setNode_setNode (q : Queue α) (i : Nat) (a b : Node α) : setNode (setNode q i a) i b = setNode q i b := by
  simp only [setNode]
  congr 1
  funext j
  by_cases hj : j = i <;> simp [hj]

/-- `enq(&x, queue)` as regenerated never dereferences nil and leaves the arena `Model.Queue.enq` describes -/
theorem enq_gen (c : Option Nat) (x : α) (q : Queue α) :
    Gen.PipeQueue.enq c x q = some ((), Golem.Model.Queue.enq c x q) := by
  simp only [Gen.PipeQueue.enq, Golem.Model.Queue.enq]
  generalize hg : Golem.Model.Queue.get c q = r
  obtain ⟨val, q1⟩ := r
  cases ht : q1.tail <;> cases hh : q1.head <;> simp [hg, ht, hh]

/-- `deq(queue)` as regenerated: the nil dereference on an empty queue, else the value pointer and the new arena -/
theorem deq_gen (q : Queue α) : Gen.PipeQueue.deq q = Golem.Model.Queue.deq q := by
  simp only [Gen.PipeQueue.deq, Golem.Model.Queue.deq]
  cases h : q.head with
  | none => simp [h]
  | some v =>
    by_cases ht : q.tail = some v
    · simp [h, ht]
    · have ht' : ¬ some v = q.tail := fun e => ht e.symm
      simp [h, ht, ht']

/-- `head(queue)`: the zero value on an empty queue, else the value the head node points to -/
theorem head_gen (zero : α) (q : Queue α) :
    Gen.PipeQueue.head zero q = (Golem.Model.Queue.head zero q).map fun a => (a, q) := by
  simp only [Gen.PipeQueue.head, Golem.Model.Queue.head]
  cases h : q.head <;> simp [h]

/-- `emit(ch, queue)`: nil (the select arm is disabled) iff the queue is empty; the queue is not touched -/
theorem emit_gen (q : Queue α) : Gen.PipeQueue.emit q = some (Golem.Model.Queue.emit q, q) := by
  simp only [Gen.PipeQueue.emit, Golem.Model.Queue.emit]
  cases h : q.head <;> simp [h]

end Queue

/-- `newq` (allocation of the empty queue and its `sync.Pool`): syntactic tie -/
theorem newq_text : Gen.PipeText.newq_text = GoText.newq_text := rfl

end Golem.Props.C08
