/-
Translation tie for `fork.FMap`: the definitions regenerated from pipe/fork/fork.go on every run
(`Golem/Gen/ForkStages.lean`, go/xlate family `stages`) are EQUAL to the hand-written model the
network theorems and the lock-step oracle are about.  A semantic edit of the Go text changes the
generated term and these equalities no longer close.
-/
import Golem.Gen.ForkStages
import Golem.Model.StageCfg
import Golem.Props.Stage.ForkCatch
namespace Golem.Props.Stage.ForkFMap
open Golem.Go Golem.Model Golem.Model.DSL Golem.Model.StageCfg

variable {σ α β ε : Type}

attribute [local simp] runBody callsOf bind BodyM.bind pure BodyM.pure applyF selSend plainSend ret next pollDone getS setS visit arrow
  toExcept catchEm catchAfter mkStage

open Golem.Props.Stage.ForkCatch
attribute [local simp] catchOf catchOfF Golem.Gen.Fork.pure_catch Golem.Gen.Fork.try_catch Golem.Gen.Fork.puref_catch Golem.Gen.Fork.tryf_catch

/-- loop body and deferred sends: the regenerated `FMap` IS the hand-written stage -/
theorem stage_gen (m : ErrMode) (g : α → List β × Option ε) :
    mkStage (Golem.Gen.Fork.FMap.body g (catchOfF m)) Golem.Gen.Fork.FMap.final = fmapS m g := by
  simp only [mkStage, fmapS, Stage.mk.injEq]
  refine ⟨?_, rfl⟩
  funext s a
  cases h : (g a).2 <;> cases m <;> simp [Golem.Gen.Fork.FMap.body, h]

/-- the regenerated loop body calls the user-supplied function exactly once per element, whatever the outcome -/
theorem calls_gen (m : ErrMode) (g : α → List β × Option ε) (s : Unit) (a : α) :
    callsOf (Golem.Gen.Fork.FMap.body g (catchOfF m) a) s = 1 := by
  cases h : (g a).2 <;> cases m <;> simp [Golem.Gen.Fork.FMap.body, h]

/-- `make`, `go`, `close`: capacities, worker layout, close order -/
theorem cfg_gen : Golem.Gen.Fork.FMap.cfg = StageCfg.forkFMap := rfl

theorem init_gen : (Golem.Gen.Fork.FMap.init : Unit) = () := rfl

end Golem.Props.Stage.ForkFMap
