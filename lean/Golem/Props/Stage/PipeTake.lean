/-
Translation tie for `pipe.Take`: the definitions regenerated from pipe/pipe.go on every run
(`Golem/Gen/PipeStages.lean`, go/xlate family `stages`) are EQUAL to the hand-written model the
network theorems and the lock-step oracle are about.  A semantic edit of the Go text changes the
generated term and these equalities no longer close.
-/
import Golem.Gen.PipeStages
import Golem.Model.StageCfg
namespace Golem.Props.Stage.PipeTake
open Golem.Go Golem.Model Golem.Model.DSL Golem.Model.StageCfg

variable {σ α β ε : Type}

attribute [local simp] runBody callsOf bind BodyM.bind pure BodyM.pure applyF selSend plainSend ret next pollDone getS setS visit arrow
  toExcept catchEm catchAfter mkStage

/-- loop body and deferred sends: the regenerated `Take` IS the hand-written stage -/
theorem stage_gen :
    mkStage (Golem.Gen.Pipe.Take.body ) Golem.Gen.Pipe.Take.final = (takeS : Stage Int α α) := by
  simp only [mkStage, takeS, Stage.mk.injEq]
  refine ⟨?_, rfl⟩
  funext s a
  by_cases h : s - 1 = 0 <;> simp [Golem.Gen.Pipe.Take.body, h]

/-- `make`, `go`, `close`: capacities, worker layout, close order -/
theorem cfg_gen : Golem.Gen.Pipe.Take.cfg = StageCfg.pipeTake := rfl

theorem init_gen (n : Int) : Golem.Gen.Pipe.Take.init n = n := rfl
/-- `if n <= 0 { close(out); return out }`: no goroutine is started, `out` is closed at once -/
theorem early_gen (n : Int) : Golem.Gen.Pipe.Take.early n = decide (n ≤ 0) := rfl
theorem earlyCloses_gen : Golem.Gen.Pipe.Take.earlyCloses = [0] := rfl

end Golem.Props.Stage.PipeTake
