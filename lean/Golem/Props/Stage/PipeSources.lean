/-
Translation tie for `pipe.Emit`, `pipe.Unfold` and the two goroutines of `pipe.Throttling`: the loop bodies,
capacities and deferred closes regenerated from pipe/pipe.go and pipe/function.go on every run
(`Golem/Gen/PipeSources.lean`, go/xlate family `sources`) are EQUAL — as functions from the loop-carried state
to (new state, actions performed, how the iteration ends) — to the hand-written per-iteration specifications
`emitIter`, `unfoldIter`, `pacerIter`, `dataIter` of Model/SourceDSL.lean, which the network models
Go/Sources.lean and Go/Throttle.lean follow control point by control point.
-/
import Golem.Gen.PipeSources
import Golem.Model.SourceDSL
namespace Golem.Props.Stage.PipeSources
open Golem.Go Golem.Model Golem.Model.DSLT

variable {σ α β ε : Type}

attribute [local simp] runBody callsOf bind BodyT.bind pure BodyT.pure act applyF selSend plainSend sleep recvSel afterSel ret next getS setS
  catchAct catchAfter

/-- `f.catch` by error mode, as regenerated (in the action monad of the sources) -/
def catchOf (m : ErrMode) : ε → Nat → BodyT σ (β ⊕ ε) Bool :=
  match m with
  | .lift => Golem.Gen.PipeSrc.pure_catch
  | .try_ => Golem.Gen.PipeSrc.try_catch

def errchOf : ErrMode → Nat → Nat
  | .lift => Golem.Gen.PipeSrc.pure_errch
  | .try_ => Golem.Gen.PipeSrc.try_errch

attribute [local simp] catchOf Golem.Gen.PipeSrc.pure_catch Golem.Gen.PipeSrc.try_catch

theorem errch_gen (m : ErrMode) : errchOf m = StageCfg.errch m := by cases m <;> rfl

/-- Emit: one iteration of the regenerated loop = `emitIter` -/
theorem emit_iter_gen (m : ErrMode) (freq : Nat) (f : Nat → α × Option ε) (i : Nat) (s : Unit) :
    runBody (Golem.Gen.PipeSrc.Emit.body0 f (catchOf m) freq i) s = (s, (emitIter m freq f i).1, (emitIter m freq f i).2) := by
  cases h : (f i).2 <;> cases m <;> simp [Golem.Gen.PipeSrc.Emit.body0, emitIter, h]

/-- Emit calls its function exactly once per iteration (so at most once per tick: the iteration starts with the sleep) -/
theorem emit_calls_gen (m : ErrMode) (freq : Nat) (f : Nat → α × Option ε) (i : Nat) (s : Unit) :
    callsOf (Golem.Gen.PipeSrc.Emit.body0 f (catchOf m) freq i) s = 1 := by
  cases h : (f i).2 <;> cases m <;> simp [Golem.Gen.PipeSrc.Emit.body0, h]

theorem emit_loop_gen : Golem.Gen.PipeSrc.Emit.loopKind0 = "index" := rfl
theorem emit_cfg_gen : Golem.Gen.PipeSrc.Emit.cfg = emitCfg := rfl

/-- Unfold: one iteration of the regenerated loop from `seed` = `unfoldIter`: the same actions, the same way of ending, and —
unless the goroutine returns, after which the loop-carried variable is dead (Emit/Unfold have no deferred send) — the same
next seed -/
theorem unfold_iter_gen (m : ErrMode) (f : α → α × Option ε) (seed : α) :
    (runBody (Golem.Gen.PipeSrc.Unfold.body0 f (catchOf m)) seed).2 = (unfoldIter m f seed).2 ∧
    ((unfoldIter m f seed).2.2 ≠ .stop →
      (runBody (Golem.Gen.PipeSrc.Unfold.body0 f (catchOf m)) seed).1 = (unfoldIter m f seed).1) := by
  cases h : (f seed).2 <;> cases m <;> simp [Golem.Gen.PipeSrc.Unfold.body0, unfoldIter, h]

/-- Unfold calls its function exactly once per delivered element -/
theorem unfold_calls_gen (m : ErrMode) (f : α → α × Option ε) (seed : α) :
    callsOf (Golem.Gen.PipeSrc.Unfold.body0 f (catchOf m)) seed = 1 := by
  cases h : (f seed).2 <;> cases m <;> simp [Golem.Gen.PipeSrc.Unfold.body0, h]

theorem unfold_loop_gen : Golem.Gen.PipeSrc.Unfold.loopKind0 = "state" := rfl
theorem unfold_cfg_gen : Golem.Gen.PipeSrc.Unfold.cfg = unfoldCfg := rfl

theorem forN_acts (n : Nat) (a : Act β) (b : BS σ β) :
    forN n (act a) b = ({ b with acts := b.acts ++ List.replicate n a }, .ok ()) := by
  induction n generalizing b with
  | zero => simp [forN]
  | succ k ih => simp [forN, ih, List.replicate_succ]

/-- Throttling, pacer: one round of the regenerated loop = `pacerIter` (for every `ops`) -/
theorem pacer_iter_gen (ops interval : Nat) (s : Unit) :
    runBody (Golem.Gen.PipeSrc.Throttling.body0 (α := α) ops interval) s
      = (s, (pacerIter (α := α) ops interval).1, (pacerIter (α := α) ops interval).2) := by
  have h := forN_acts (σ := Unit) ops (Act.send 1 (Sum.inr () : α ⊕ Unit) .sel) { s := s, acts := [] }
  simp only [Golem.Gen.PipeSrc.Throttling.body0, runBody, pacerIter, bind, BodyT.bind, selSend] at *
  simp [h, afterSel, act]

/-- Throttling, data goroutine: the regenerated loop body on element `a` = `dataIter` -/
theorem data_iter_gen (a : α) (s : Unit) :
    runBody (Golem.Gen.PipeSrc.Throttling.body1 a) s = (s, (dataIter a).1, (dataIter a).2) := by
  simp [Golem.Gen.PipeSrc.Throttling.body1, dataIter]

theorem throttling_loops_gen : Golem.Gen.PipeSrc.Throttling.loopKind0 = "state" ∧ Golem.Gen.PipeSrc.Throttling.loopKind1 = "range" := ⟨rfl, rfl⟩
theorem throttling_cfg_gen : Golem.Gen.PipeSrc.Throttling.cfg = throttlingCfg := rfl

end Golem.Props.Stage.PipeSources
