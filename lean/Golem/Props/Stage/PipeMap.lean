/-
Translation tie for `pipe.Map`: the definitions regenerated from pipe/pipe.go on every run
(`Golem/Gen/PipeStages.lean`, go/xlate family `stages`) are EQUAL to the hand-written model the
network theorems and the lock-step oracle are about.  A semantic edit of the Go text changes the
generated term and these equalities no longer close.
-/
import Golem.Gen.PipeStages
import Golem.Model.StageCfg
import Golem.Props.Stage.PipeCatch
namespace Golem.Props.Stage.PipeMap
open Golem.Go Golem.Model Golem.Model.DSL Golem.Model.StageCfg

variable {σ α β ε : Type}

attribute [local simp] runBody callsOf bind BodyM.bind pure BodyM.pure applyF selSend plainSend ret next pollDone getS setS visit arrow
  toExcept catchEm catchAfter mkStage

open Golem.Props.Stage.PipeCatch
attribute [local simp] catchOf catchOfF Golem.Gen.Pipe.pure_catch Golem.Gen.Pipe.try_catch Golem.Gen.Pipe.puref_catch Golem.Gen.Pipe.tryf_catch

/-- loop body and deferred sends: the regenerated `Map` IS the hand-written stage -/
theorem stage_gen (m : ErrMode) (f : α → β × Option ε) :
    mkStage (Golem.Gen.Pipe.Map.body f (catchOf m)) Golem.Gen.Pipe.Map.final = mapS m (toExcept f) := by
  simp only [mkStage, mapS, Stage.mk.injEq]
  refine ⟨?_, rfl⟩
  funext s a
  cases h : (f a).2 <;> cases m <;> simp [Golem.Gen.Pipe.Map.body, h]

/-- the regenerated loop body calls the user-supplied function exactly once per element, whatever the outcome -/
theorem calls_gen (m : ErrMode) (f : α → β × Option ε) (s : Unit) (a : α) :
    callsOf (Golem.Gen.Pipe.Map.body f (catchOf m) a) s = 1 := by
  cases h : (f a).2 <;> cases m <;> simp [Golem.Gen.Pipe.Map.body, h]

/-- `make`, `go`, `close`: capacities, worker layout, close order -/
theorem cfg_gen : Golem.Gen.Pipe.Map.cfg = StageCfg.pipeMap := rfl

theorem init_gen : (Golem.Gen.Pipe.Map.init : Unit) = () := rfl

end Golem.Props.Stage.PipeMap
