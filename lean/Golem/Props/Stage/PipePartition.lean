/-
Translation tie for `pipe.Partition`: the definitions regenerated from pipe/pipe.go on every run
(`Golem/Gen/PipeStages.lean`, go/xlate family `stages`) are EQUAL to the hand-written model the
network theorems and the lock-step oracle are about.  A semantic edit of the Go text changes the
generated term and these equalities no longer close.
-/
import Golem.Gen.PipeStages
import Golem.Model.StageCfg
namespace Golem.Props.Stage.PipePartition
open Golem.Go Golem.Model Golem.Model.DSL Golem.Model.StageCfg

variable {σ α β ε : Type}

attribute [local simp] runBody callsOf bind BodyM.bind pure BodyM.pure applyF selSend plainSend ret next pollDone getS setS visit arrow
  toExcept catchEm catchAfter mkStage

/-- loop body and deferred sends: the regenerated `Partition` IS the hand-written stage -/
theorem stage_gen (f : α → Bool × Option ε) :
    mkStage (Golem.Gen.Pipe.Partition.body f) Golem.Gen.Pipe.Partition.final = partitionS (toExcept f) := by
  simp only [mkStage, partitionS, Stage.mk.injEq]
  refine ⟨?_, rfl⟩
  funext s a
  cases h : (f a).2 <;> cases h2 : (f a).1 <;> simp [Golem.Gen.Pipe.Partition.body, h, h2]

/-- the regenerated loop body calls the user-supplied function exactly once per element, whatever the outcome -/
theorem calls_gen (f : α → Bool × Option ε) (s : Unit) (a : α) :
    callsOf (Golem.Gen.Pipe.Partition.body f a) s = 1 := by
  cases h : (f a).2 <;> cases h2 : (f a).1 <;> simp [Golem.Gen.Pipe.Partition.body, h, h2]

/-- `make`, `go`, `close`: capacities, worker layout, close order -/
theorem cfg_gen : Golem.Gen.Pipe.Partition.cfg = StageCfg.pipePartition := rfl

theorem init_gen : (Golem.Gen.Pipe.Partition.init : Unit) = () := rfl

end Golem.Props.Stage.PipePartition
