/-
Translation tie for `fork.Fold`: the definitions regenerated from pipe/fork/fork.go on every run
(`Golem/Gen/ForkStages.lean`, go/xlate family `stages`) are EQUAL to the hand-written model the
network theorems and the lock-step oracle are about.  A semantic edit of the Go text changes the
generated term and these equalities no longer close.
-/
import Golem.Gen.ForkStages
import Golem.Model.StageCfg
namespace Golem.Props.Stage.ForkFold
open Golem.Go Golem.Model Golem.Model.DSL Golem.Model.StageCfg

variable {σ α β ε : Type}

attribute [local simp] runBody callsOf bind BodyM.bind pure BodyM.pure applyF selSend plainSend ret next pollDone getS setS visit arrow
  toExcept catchEm catchAfter mkStage

/-- loop body and deferred send: the regenerated worker of `fork.Fold` IS `foldS` (the stage of `pipe.Fold` and of
`Go/ForkFold`), its deferred send going to `vals` — channel 1 in the numbering "returned channels first" used here,
output 0 of the pool component in `Go/ForkFold.lean` -/
theorem stage_gen (c : α → α → α) :
    mkStage (Golem.Gen.Fork.Fold.body c) Golem.Gen.Fork.Fold.final = ({ (foldS c) with final := fun acc => [(1, acc)] } : Stage α α α) := by
  simp only [mkStage, foldS, Stage.mk.injEq]
  refine ⟨?_, rfl⟩
  funext s a
  simp [Golem.Gen.Fork.Fold.body]

/-- `make`, `go`, `close`: capacities, worker layout, close order -/
theorem cfg_gen : Golem.Gen.Fork.Fold.cfg = StageCfg.forkFold := rfl

theorem init_gen (e : α) : Golem.Gen.Fork.Fold.init e = e := rfl
/-- the collector goroutine after `wg.Wait()`: start from `m.Empty()`, combine exactly `par` partial results
received from `vals`, send the result on `done`, close `vals`, close `done` -/
theorem collector_gen : Golem.Gen.Fork.Fold.collector = StageCfg.forkFoldCollector := rfl

end Golem.Props.Stage.ForkFold
