/-
Translation tie for `fork.Fold`: the definitions regenerated from pipe/fork/fork.go on every run
(`Golem/Gen/ForkStages.lean`, go/xlate family `stages`) are EQUAL to the hand-written model the
network theorems and the lock-step oracle are about.  A semantic edit of the Go text changes the
generated term and these equalities no longer close.
-/
import Golem.Gen.ForkStages
import Golem.Model.StageCfg
namespace Golem.Props.Stage.ForkFold
open Golem.Go Golem.Model Golem.Model.DSL Golem.Model.StageCfg

variable {σ α β ε : Type}

attribute [local simp] runBody callsOf bind BodyM.bind pure BodyM.pure applyF selSend plainSend ret next pollDone getS setS visit arrow
  toExcept catchEm catchAfter mkStage

/-- loop body and deferred send: the regenerated worker of `fork.Fold` IS `foldS` (the stage of `pipe.Fold` and of
`Go/ForkFold`), its deferred send going to `vals` — channel 1 in the numbering "returned channels first" used here,
output 0 of the pool component in `Go/ForkFold.lean` -/
theorem stage_gen (c : α → α → α) :
    mkStage (Golem.Gen.Fork.Fold.body c) Golem.Gen.Fork.Fold.final = ({ (foldS c) with final := fun acc => [(1, acc)] } : Stage α α α) := by
  simp only [mkStage, foldS, Stage.mk.injEq]
  refine ⟨?_, rfl⟩
  funext s a
  simp [Golem.Gen.Fork.Fold.body]

/-- `make`, `go`, `close`: capacities, worker layout, close order -/
theorem cfg_gen : Golem.Gen.Fork.Fold.cfg = StageCfg.forkFold := rfl

theorem init_gen (e : α) : Golem.Gen.Fork.Fold.init e = e := rfl
/-- the collector goroutine after `wg.Wait()`: start from `m.Empty()`, combine exactly `par` partial results
received from `vals`, send the result on `done`, close `vals`, close `done` -/
theorem collector_gen_hand (c : α → α → α) (e : α) (par : Nat) (vs : List α) (h : vs.length = par) :
    (collRun c e par 1 0 StageCfg.forkFoldCollector { vals := vs }).map CollSt.obs = some ([vs.foldl c e], true, true, []) := by
  subst h
  simp [StageCfg.forkFoldCollector, collRun, CollOp.run, CollSt.obs]

/-- The REGENERATED collector, run as a program on what the workers left in `vals` (exactly `par` partial results:
`Go/ForkFold`'s invariant at `wg.Wait()`), sends the left fold of those values from `m.Empty()` on `done` once, closes
`done` and `vals`, and leaves `vals` empty — the observable behaviour of the collector of `Go/ForkFold.collNext`
(`collector_gen_hand`). Stated on behaviour, not on the text: counting `par` receives and closing `vals` first and
ranging over it are the same collector. -/
theorem collector_gen (c : α → α → α) (e : α) (par : Nat) (vs : List α) (h : vs.length = par) :
    (collRun c e par 1 0 Golem.Gen.Fork.Fold.collector { vals := vs }).map CollSt.obs = some ([vs.foldl c e], true, true, []) := by
  subst h
  simp [Golem.Gen.Fork.Fold.collector, collRun, CollOp.run, CollSt.obs]

end Golem.Props.Stage.ForkFold
