/-
Translation tie for `pipe.Void`: the definitions regenerated from pipe/pipe.go on every run
(`Golem/Gen/PipeStages.lean`, go/xlate family `stages`) are EQUAL to the hand-written model the
network theorems and the lock-step oracle are about.  A semantic edit of the Go text changes the
generated term and these equalities no longer close.
-/
import Golem.Gen.PipeStages
import Golem.Model.StageCfg
namespace Golem.Props.Stage.PipeVoid
open Golem.Go Golem.Model Golem.Model.DSL Golem.Model.StageCfg

variable {σ α β ε : Type}

attribute [local simp] runBody callsOf bind BodyM.bind pure BodyM.pure applyF selSend plainSend ret next pollDone getS setS visit arrow
  toExcept catchEm catchAfter mkStage

/-- loop body and deferred sends: the regenerated `Void` IS the hand-written stage -/
theorem stage_gen :
    mkStage (Golem.Gen.Pipe.Void.body ) Golem.Gen.Pipe.Void.final = (voidS : Stage Unit α Unit) := by
  simp only [mkStage, voidS, Stage.mk.injEq]
  refine ⟨?_, rfl⟩
  funext s a
  simp [Golem.Gen.Pipe.Void.body]

/-- `make`, `go`, `close`: capacities, worker layout, close order -/
theorem cfg_gen : Golem.Gen.Pipe.Void.cfg = StageCfg.pipeVoid := rfl

theorem init_gen : (Golem.Gen.Pipe.Void.init : Unit) = () := rfl

end Golem.Props.Stage.PipeVoid
