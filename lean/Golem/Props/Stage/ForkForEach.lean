/-
Translation tie for `fork.ForEach`: the definitions regenerated from pipe/fork/fork.go on every run
(`Golem/Gen/ForkStages.lean`, go/xlate family `stages`) are EQUAL to the hand-written model the
network theorems and the lock-step oracle are about.  A semantic edit of the Go text changes the
generated term and these equalities no longer close.
-/
import Golem.Gen.ForkStages
import Golem.Model.StageCfg
namespace Golem.Props.Stage.ForkForEach
open Golem.Go Golem.Model Golem.Model.DSL Golem.Model.StageCfg

variable {σ α β ε : Type}

attribute [local simp] runBody callsOf bind BodyM.bind pure BodyM.pure applyF selSend plainSend ret next pollDone getS setS visit arrow
  toExcept catchEm catchAfter mkStage

/-- loop body and deferred sends: the regenerated `ForEach` IS the hand-written stage -/
theorem stage_gen (f : α → α × Option ε) :
    mkStage (Golem.Gen.Fork.ForEach.body f) Golem.Gen.Fork.ForEach.final = (forEachS : Stage (List α) α Unit) := by
  simp only [mkStage, forEachS, Stage.mk.injEq]
  refine ⟨?_, rfl⟩
  funext s a
  simp [Golem.Gen.Fork.ForEach.body]

/-- the regenerated loop body calls the user-supplied function exactly once per element, whatever the outcome -/
theorem calls_gen (f : α → α × Option ε) (s : List α) (a : α) :
    callsOf (Golem.Gen.Fork.ForEach.body f a) s = 1 := by
  cases h : (f a).2 <;> simp [Golem.Gen.Fork.ForEach.body, h]

/-- `make`, `go`, `close`: capacities, worker layout, close order -/
theorem cfg_gen : Golem.Gen.Fork.ForEach.cfg = StageCfg.forkForEach := rfl

theorem init_gen : (Golem.Gen.Fork.ForEach.init : List α) = [] := rfl

end Golem.Props.Stage.ForkForEach
