/-
Translation tie for `pipe`'s `catch`/`errch` methods: the definitions regenerated from pipe/function.go on every run
(`Golem/Gen/PipeStages.lean`, go/xlate family `stages`) are EQUAL to the hand-written model the
network theorems and the lock-step oracle are about.  A semantic edit of the Go text changes the
generated term and these equalities no longer close.
-/
import Golem.Gen.PipeStages
import Golem.Model.StageCfg
namespace Golem.Props.Stage.PipeCatch
open Golem.Go Golem.Model Golem.Model.DSL Golem.Model.StageCfg

variable {σ α β ε : Type}

attribute [local simp] runBody callsOf bind BodyM.bind pure BodyM.pure applyF selSend plainSend ret next pollDone getS setS visit arrow
  toExcept catchEm catchAfter mkStage

/-- `f.catch` of a morphism built by `Pure`/`Lift` (type `pure`) or `Try` (type `try`), as regenerated -/
def catchOf (m : ErrMode) : ε → Nat → BodyM σ (β ⊕ ε) Bool :=
  match m with
  | .lift => Golem.Gen.Pipe.pure_catch
  | .try_ => Golem.Gen.Pipe.try_catch

/-- the same for arrows (`LiftF`: type `puref`, `TryF`: type `tryf`) -/
def catchOfF (m : ErrMode) : ε → Nat → BodyM σ (β ⊕ ε) Bool :=
  match m with
  | .lift => Golem.Gen.Pipe.puref_catch
  | .try_ => Golem.Gen.Pipe.tryf_catch

def errchOf : ErrMode → Nat → Nat
  | .lift => Golem.Gen.Pipe.pure_errch
  | .try_ => Golem.Gen.Pipe.try_errch

def errchOfF : ErrMode → Nat → Nat
  | .lift => Golem.Gen.Pipe.puref_errch
  | .try_ => Golem.Gen.Pipe.tryf_errch

/-- `catch` performs exactly the hand model's error emission (`catchEm`: a plain send for fail-fast, a
`select` with `ctx.Done` for try) and tells the loop to stop (`false`) or go on (`true`) as `catchAfter` says -/
theorem catch_gen (m : ErrMode) (e : ε) (exx : Nat) (b : BS σ (β ⊕ ε)) :
    catchOf (β := β) m e exx b
      = ({ b with ems := b.ems ++ [({ (catchEm (β := β) m e) with ch := exx })] }, .ok (catchAfter m == .cont)) := by
  cases m <;> simp [catchOf, Golem.Gen.Pipe.pure_catch, Golem.Gen.Pipe.try_catch] <;> rfl

theorem catchF_gen (m : ErrMode) (e : ε) (exx : Nat) (b : BS σ (β ⊕ ε)) :
    catchOfF (β := β) m e exx b
      = ({ b with ems := b.ems ++ [({ (catchEm (β := β) m e) with ch := exx })] }, .ok (catchAfter m == .cont)) := by
  cases m <;> simp [catchOfF, Golem.Gen.Pipe.puref_catch, Golem.Gen.Pipe.tryf_catch] <;> rfl

/-- `errch`: capacity 1 for fail-fast, the requested capacity for try -/
theorem errch_gen (m : ErrMode) : errchOf m = StageCfg.errch m := by
  cases m <;> rfl

theorem errchF_gen (m : ErrMode) : errchOfF m = StageCfg.errch m := by
  cases m <;> rfl

end Golem.Props.Stage.PipeCatch
