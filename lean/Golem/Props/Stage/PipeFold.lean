/-
Translation tie for `pipe.Fold`: the definitions regenerated from pipe/pipe.go on every run
(`Golem/Gen/PipeStages.lean`, go/xlate family `stages`) are EQUAL to the hand-written model the
network theorems and the lock-step oracle are about.  A semantic edit of the Go text changes the
generated term and these equalities no longer close.
-/
import Golem.Gen.PipeStages
import Golem.Model.StageCfg
namespace Golem.Props.Stage.PipeFold
open Golem.Go Golem.Model Golem.Model.DSL Golem.Model.StageCfg

variable {σ α β ε : Type}

attribute [local simp] runBody callsOf bind BodyM.bind pure BodyM.pure applyF selSend plainSend ret next pollDone getS setS visit arrow
  toExcept catchEm catchAfter mkStage

/-- loop body and deferred sends: the regenerated `Fold` IS the hand-written stage -/
theorem stage_gen (c : α → α → α) :
    mkStage (Golem.Gen.Pipe.Fold.body c) Golem.Gen.Pipe.Fold.final = foldS c := by
  simp only [mkStage, foldS, Stage.mk.injEq]
  refine ⟨?_, rfl⟩
  funext s a
  simp [Golem.Gen.Pipe.Fold.body]

/-- `make`, `go`, `close`: capacities, worker layout, close order -/
theorem cfg_gen : Golem.Gen.Pipe.Fold.cfg = StageCfg.pipeFold := rfl

theorem init_gen (e : α) : Golem.Gen.Pipe.Fold.init e = e := rfl

end Golem.Props.Stage.PipeFold
