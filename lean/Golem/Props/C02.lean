/-
C02 — lens derivation yields a correctly typed in-bounds focus or panics.

Property theorems only, about the definitions the oracle executes.  The model is FAITHFUL to
today's code, which still gets one thing wrong (DESIGN section 9, confirmed on the real code by
checks/C02.py and recorded in known_findings.json):

  F5  a focus inside a POINTER-embedded struct is accepted and addressed at
      (offset of the pointer field + inner offset) relative to the container.

F6 (a container type parameter `*S` was accepted) is REPAIRED in optics: `NewLens`/`NewReflector`
panic unless the container type parameter is a struct; the model follows (`Model/Lens.newLens`), the
former witness `ptr_container_accepted` is gone and `ptr_container_panics` /
`container_not_struct_panics` prove the repaired behaviour for both families and every N.

(A further defect found while building this check lies outside the model's `cap == len` reading of
the variadic `attr`: too few names hidden behind spare slice capacity are accepted; see `short_names_panic`.)

So the full statement

    theorem derive_ok_or_panic : ∀ mk T As attr, deriveN mk T As attr is an error, or T is a struct
      and every returned lens has the requested type and is focused on a field of T (in bounds)

is still FALSE of the model; `ptr_embedded_focus_out_of_bounds`, `ptr_embedded_focus_overlaps_field`
and `derive_ok_or_panic_false` prove the negation on a concrete shape, and
`derive_ok_or_panic_partial` proves the statement for EVERY container type parameter and every
request except that one class: a request either panics, or the container is a struct and every
returned lens is a lens on a listed field of identical declared type which — whenever that field
was reached without crossing an embedded pointer — is focused exactly on it (inside the struct).
What is missing for the full theorem is precisely F5 (the `via = true` entries).
-/
import Golem.Props.C01
namespace Golem.Props.C02
open Golem.Model Golem.Props.C01

/-- The two optic constructors. -/
def IsMk (mk : GoType → GoType → Entry → Except Panic Lens) : Prop := mk = newLens ∨ mk = newReflector

/-- Struct-container core of `derive_ok_or_panic_partial`. -/
theorem derive_struct_aux (mk : GoType → GoType → Entry → Except Panic Lens) (hmk : IsMk mk)
    (T : GoType) (fs : Fields) (hT : T.fields? = some fs) (As : List GoType) (attr : List String)
    (h1 : 1 ≤ As.length) :
    (∃ p, deriveN mk T As attr = .error p) ∨
    (∃ ls, deriveN mk T As attr = .ok ls ∧
      Pointwise (fun A l =>
        l.S = T ∧ l.A = A ∧
        ∃ nd ∈ flatten T, nd.decl = l.entry.field ∧ nd.decl.type = A ∧
          (nd.via = false → FocusOn T l nd.path ∧ l.window.2 ≤ T.size)) As ls) := by
  have hk : T.kind ≠ .ptr := by
    intro hk
    rw [T.fields?_of_ptr hk] at hT; cases hT
  have hseq : unfold (if T.kind = .ptr then T.elem else T) [] 0 = .ok (unfoldFields fs 0 [] 0) := by
    simp [hk, unfold, hT]
  cases hd : deriveN mk T As attr with
  | error p => exact .inl ⟨p, rfl⟩
  | ok ls =>
    refine .inr ⟨ls, rfl, ?_⟩
    have hs := deriveN_sound mk hmk T (T.kind_of_fields? fs hT) _ hseq As attr h1 ls hd
    have hunf : unfold T [] 0 = .ok (unfoldFields fs 0 [] 0) := by simp [unfold, hT]
    -- every entry of the listing has its node
    have hnode : ∀ e ∈ unfoldFields fs 0 [] 0, ∃ (i : Nat) (nd : Node), (unfoldFields fs 0 [] 0)[i]? = some e ∧
        (flatten T)[i]? = some nd ∧ nd.decl = e.field := by
      intro e he
      obtain ⟨i, hi, hget⟩ := List.getElem_of_mem he
      have hmap : (unfoldFields fs 0 [] 0).map (·.field) = (flatten T).map (·.decl) := by
        rw [unfoldFields_walk fs 0 [] 0 0 [] false]
        simp only [flatten, hT, List.nil_append, List.length_nil]
        rw [← walkFields_node fs 0 [] false 0 0 0]
        simp [Item.node, Function.comp_def]
      have hlen : (flatten T).length = (unfoldFields fs 0 [] 0).length := by
        have := congrArg List.length hmap; simpa using this.symm
      have hi' : i < (flatten T).length := by omega
      refine ⟨i, (flatten T)[i], by simp [hi, hget], by simp [hi'], ?_⟩
      have := congrArg (fun l => l[i]?) hmap
      simp [hi, hi', hget] at this
      exact this.symm
    clear hd h1
    induction hs with
    | nil => exact .nil
    | cons hh _ ih =>
      obtain ⟨e, he, ht, rfl⟩ := hh
      obtain ⟨i, nd, hi, hn, hdecl⟩ := hnode e he
      refine .cons ⟨rfl, rfl, nd, List.mem_of_getElem? hn, hdecl, by rw [hdecl]; exact ht, ?_⟩ ih
      intro hv
      have := unfold_offset_aux T _ hunf i e nd hi hn hv
      refine ⟨by simpa [FocusOn, mkLens, ht] using this.1, ?_⟩
      simpa [Lens.window, mkLens, ht, Nat.add_comm e.offset e.rootOffs] using this.2

/-- A container type parameter whose kind is not struct (a pointer to a struct, `**S`, int, a slice,
an interface, …): every derivation request panics — by type or by name, Lens or Reflector, every
arity N ≥ 1. -/
theorem container_not_struct_panics (mk : GoType → GoType → Entry → Except Panic Lens) (hmk : IsMk mk)
    (T : GoType) (hT : T.kind ≠ .struct) (As : List GoType) (attr : List String) (h1 : 1 ≤ As.length) :
    ∃ p, deriveN mk T As attr = .error p := by
  cases As with
  | nil => simp at h1
  | cons A As =>
    unfold deriveN
    generalize (if attr.isEmpty = true then newN T (A :: As) else _) = sq
    cases sq with
    | error p => exact ⟨p, rfl⟩
    | ok es => simp only [fmapN_zipE]; exact zipE_non_struct mk hmk T hT es A As

/-- F6 repaired: a POINTER container `*S` (whatever `S` is) is never accepted: `ForProductN[*S, …]`
and `ForSpectrumN[*S, …]` panic for every N ≥ 1, every focus types and every names. -/
theorem ptr_container_panics (mk : GoType → GoType → Entry → Except Panic Lens) (hmk : IsMk mk)
    (S : GoType) (As : List GoType) (attr : List String) (h1 : 1 ≤ As.length) :
    ∃ p, deriveN mk (.ptr S) As attr = .error p :=
  container_not_struct_panics mk hmk (.ptr S) (by simp [GoType.kind]) As attr h1

/-- With resolvable names / present types the pointer container fails exactly in the constructor
(`fmt.Errorf` class), after the lookups: the class the harness observes. -/
theorem ptr_container_panics_in_constructor (mk : GoType → GoType → Entry → Except Panic Lens) (hmk : IsMk mk)
    (T : GoType) (hT : T.kind ≠ .struct) (seq : List Entry)
    (hseq : unfold (if T.kind = .ptr then T.elem else T) [] 0 = .ok seq) (As : List GoType) (h1 : 1 ≤ As.length)
    (es : List Entry) (hres : mapE (forType seq) As = .ok es) :
    deriveN mk T As [] = .error .error := by
  rw [deriveN_by_type_pre mk T seq hseq As, hres]
  have hl := mapE_length _ _ _ hres
  cases As with
  | nil => simp at h1
  | cons A As =>
    cases es with
    | nil => simp at hl
    | cons e es => rcases hmk with rfl | rfl <;> simp [zipE, newLens, newReflector, hT]

/-- PARTIAL (see header): for EVERY container type parameter `T`, a derivation request (by type or by
name, any arity N ≥ 1, matching or not, Lens or Reflector) either panics, or `T` is a struct and the
request returns N optics such that the i-th one has container `T` and focus type `A_i`, sits on an
entry of the listing whose declared type is identical to `A_i`, and — whenever that entry was reached
along value embeddings only, in particular always when `T` has no pointer-embedded struct — addresses
exactly that field's bytes, which lie inside `T`.  Missing for the full statement: the entries reached
through an embedded pointer (F5). -/
theorem derive_ok_or_panic_partial (mk : GoType → GoType → Entry → Except Panic Lens) (hmk : IsMk mk)
    (T : GoType) (As : List GoType) (attr : List String) (h1 : 1 ≤ As.length) :
    (∃ p, deriveN mk T As attr = .error p) ∨
    (∃ ls fs, T.fields? = some fs ∧ deriveN mk T As attr = .ok ls ∧
      Pointwise (fun A l =>
        l.S = T ∧ l.A = A ∧
        ∃ nd ∈ flatten T, nd.decl = l.entry.field ∧ nd.decl.type = A ∧
          (nd.via = false → FocusOn T l nd.path ∧ l.window.2 ≤ T.size)) As ls) := by
  by_cases hk : T.kind = .struct
  · obtain ⟨fs, hfs⟩ := T.fields?_of_kind_struct hk
    rcases derive_struct_aux mk hmk T fs hfs As attr h1 with h | ⟨ls, h1', h2⟩
    · exact .inl h
    · exact .inr ⟨ls, fs, hfs, h1', h2⟩
  · exact .inl (container_not_struct_panics mk hmk T hk As attr h1)


/-- Corollary: a struct container without any pointer-embedded struct — every accepted optic is a
correctly typed, in-bounds field focus. -/
theorem derive_ok_or_panic_no_ptr_embedding (mk : GoType → GoType → Entry → Except Panic Lens) (hmk : IsMk mk)
    (T : GoType) (fs : Fields) (hT : T.fields? = some fs) (hvia : ∀ nd ∈ flatten T, nd.via = false)
    (As : List GoType) (attr : List String) (h1 : 1 ≤ As.length) (ls : List Lens)
    (hok : deriveN mk T As attr = .ok ls) :
    Pointwise (fun A l => l.A = A ∧ ∃ π, FocusOn T l π ∧ l.window.2 ≤ T.size) As ls := by
  rcases derive_struct_aux mk hmk T fs hT As attr h1 with ⟨p, hp⟩ | ⟨ls', hls, hpw⟩
  · rw [hp] at hok; cases hok
  · rw [hls] at hok; cases hok
    clear hls h1
    induction hpw with
    | nil => exact .nil
    | cons hh _ ih =>
      obtain ⟨_, hA, nd, hnd, _, _, hf⟩ := hh
      exact .cons ⟨hA, nd.path, hf (hvia nd hnd)⟩ ih

/-- An unknown name among the first N names panics (`errType`) at derivation time (whatever the container). -/
theorem unknown_name_panics (mk : GoType → GoType → Entry → Except Panic Lens)
    (T : GoType) (seq : List Entry) (hseq : unfold (if T.kind = .ptr then T.elem else T) [] 0 = .ok seq)
    (As : List GoType) (attr : List String) (h1 : 1 ≤ As.length) (hlen : As.length ≤ attr.length)
    (hmiss : ∃ n ∈ attr.take As.length, seq.find? (fun e => e.fieldKey == n) = none) :
    deriveN mk T As attr = .error .errType := by
  have hne : attr ≠ [] := by intro h; subst h; rw [List.length_nil] at hlen; omega
  rw [deriveN_by_name_pre mk T seq hseq As attr hne h1 hlen, mapE_forName_missing seq _ hmiss]

/-- A requested focus type that no field has panics (`errType`) at derivation time. -/
theorem missing_type_panics (mk : GoType → GoType → Entry → Except Panic Lens)
    (T : GoType) (seq : List Entry) (hseq : unfold (if T.kind = .ptr then T.elem else T) [] 0 = .ok seq)
    (As : List GoType) (hmiss : ∃ A ∈ As, seq.find? (fun e => decide (e.field.type = A)) = none) :
    deriveN mk T As [] = .error .errType := by
  rw [deriveN_by_type_pre mk T seq hseq As, mapE_forType_missing seq _ hmiss]

/-- Fewer names than N (but at least one) panics: `attr[0:N]` is out of range — whatever `T` is.
Modelling assumption: `attr` has `cap == len` (a variadic call with explicit arguments).  Go bounds
`attr[0:N]` by the CAPACITY; a caller spreading a slice with spare capacity
(`names := []string{"A","B"}[:1]; ForProduct2[T,X,Y](names...)`) is outside the model and is silently
accepted by the real code — reproduced by checks/C02.py as known finding `short-names-spare-capacity`. -/
theorem short_names_panic (mk : GoType → GoType → Entry → Except Panic Lens)
    (T : GoType) (As : List GoType) (attr : List String) (hne : attr ≠ []) (hshort : attr.length < As.length) :
    deriveN mk T As attr = .error .slice := by
  have : attr.isEmpty = false := by cases attr <;> simp_all
  simp [deriveN, this, attrNames_short As.length attr hshort hne]

/-- All names resolve but some name's field has another declared type than requested: the type
guard of `NewLens`/`NewReflector` panics (`fmt.Errorf`), nothing is returned. -/
theorem wrong_type_by_name_panics (mk : GoType → GoType → Entry → Except Panic Lens) (hmk : IsMk mk)
    (T : GoType) (seq : List Entry) (hseq : unfold (if T.kind = .ptr then T.elem else T) [] 0 = .ok seq)
    (As : List GoType) (attr : List String) (h1 : 1 ≤ As.length) (hlen : As.length ≤ attr.length)
    (es : List Entry)
    (hres : Pointwise (fun n e => seq.find? (fun e => e.fieldKey == n) = some e) (attr.take As.length) es)
    (i : Nat) (A : GoType) (e : Entry) (hA : As[i]? = some A) (he : es[i]? = some e) (hne : e.field.type ≠ A) :
    deriveN mk T As attr = .error .error := by
  have hne' : attr ≠ [] := by intro h; subst h; rw [List.length_nil] at hlen; omega
  have hm : mapE (forName seq) (attr.take As.length) = .ok es := by
    rw [mapE_ok_iff]
    have : ∀ n e, seq.find? (fun e => e.fieldKey == n) = some e → forName seq n = .ok e := by
      intro n e h; rw [forName_find, h]
    clear he
    generalize attr.take As.length = names at hres ⊢
    induction hres with
    | nil => exact .nil
    | cons hh _ ih => exact .cons (this _ _ hh) ih
  by_cases hT : T.kind = .struct
  · rw [deriveN_by_name mk hmk T hT seq hseq As attr hne' h1 hlen, hm]
    simp [typesMatch_false_of_mismatch As es i A e hA he hne]
  · rw [deriveN_by_name_pre mk T seq hseq As attr hne' h1 hlen, hm]
    have hl : es.length = As.length := by rw [mapE_length _ _ _ hm]; simp; omega
    cases As with
    | nil => simp at h1
    | cons B Bs =>
      cases es with
      | nil => simp at hl
      | cons e' es' => rcases hmk with rfl | rfl <;> simp [zipE, newLens, newReflector, hT]

/-- A container type parameter that is neither a struct nor a pointer to one (int, **S, []S, an
interface, …) panics at derivation time (inside reflect, or earlier on short names). -/
theorem non_struct_container_panics (mk : GoType → GoType → Entry → Except Panic Lens)
    (T : GoType) (hT : (if T.kind = .ptr then T.elem else T).fields? = none) (As : List GoType) (attr : List String) :
    deriveN mk T As attr = .error .reflect ∨ deriveN mk T As attr = .error .slice ∨
      deriveN mk T As attr = .error .index := by
  have hnew : ∀ names, hseqNew T names = .error .reflect := by
    intro names; simp [hseqNew, unfold, hT]
  by_cases he : attr.isEmpty = true
  · left; simp [deriveN, he, newN, hnew]
  · simp only [deriveN, he]
    cases ha : attrNames As.length attr with
    | error p =>
      unfold attrNames at ha
      split at ha
      · cases hi : index attr 0 with
        | error q => simp [hi] at ha; subst ha; have := (index_error_iff attr 0 q).mp hi; simp [this.2]
        | ok x => simp [hi] at ha
      · unfold sliceTo at ha; split at ha <;> simp at ha; subst ha; simp
    | ok names => left; simp [hnew]

/-- A Reflector given anything but a pointer to its own container type panics; no memory is
produced, i.e. nothing is modified. -/
theorem reflector_rejects_foreign (l : Lens) (m : Mem) (s : Dyn) (a : List UInt8)
    (h : s.type ≠ some (.ptr l.S)) :
    l.gett m s = .error .error ∧ l.putt m s a = .error .error := by
  simp [Lens.gett, Lens.putt, h]

/-! ### The remaining defect of today's code (F5): negation witnesses on the faithful model -/

def inner3 : GoType := .named "Inner" (.struct (.cons "X" false "" (.prim .int16) (.cons "Y" false "" (.prim .int64)
  (.cons "Z" false "" (.prim .int64) .nil))))
/-- `struct{ A int8; *Inner; B int64 }` with `Inner struct{ X int16; Y int64; Z int64 }`: 24 bytes. -/
def ptrEmb : GoType := .named "S" (.struct (.cons "A" false "" (.prim .int8) (.cons "Inner" true "" (.ptr inner3)
  (.cons "B" false "" (.prim .int64) .nil))))

/-- F5: `ForProduct1[S, int64]("Z")` is accepted and its window `[24, 32)` lies beyond the 24-byte struct. -/
theorem ptr_embedded_focus_out_of_bounds :
    ∃ (S : GoType) (l : Lens), S.fields? ≠ none ∧ forProduct S [.prim .int64] ["Z"] = .ok [l] ∧ S.size < l.window.2 :=
  ⟨ptrEmb, ⟨⟨⟨"Z", false, "", .prim .int64⟩, 16, 8, .prim .int64, 4⟩, ptrEmb, .prim .int64⟩, by decide, by rfl, by decide⟩

/-- F5: `ForProduct1[S, int64]("Y")` is accepted and its window `[16, 24)` is exactly the bytes of field `B`. -/
theorem ptr_embedded_focus_overlaps_field :
    ∃ (S : GoType) (l : Lens), forProduct S [.prim .int64] ["Y"] = .ok [l] ∧
      pathLookup S [2] = some (l.window.1, .prim .int64) ∧ l.entry.field.name = "Y" :=
  ⟨ptrEmb, ⟨⟨⟨"Y", false, "", .prim .int64⟩, 8, 8, .prim .int64, 3⟩, ptrEmb, .prim .int64⟩, by rfl, by decide, rfl⟩

/-- Hence the unrestricted statement is false of the faithful model (because of F5 alone): an
accepted derivation on a struct container whose window leaves the struct. -/
theorem derive_ok_or_panic_false :
    ¬ (∀ (T : GoType) (As : List GoType) (attr : List String) (ls : List Lens),
        forProduct T As attr = .ok ls → ∀ l ∈ ls, l.window.2 ≤ T.size) := by
  intro h
  obtain ⟨S, l, _, hok, hbig⟩ := ptr_embedded_focus_out_of_bounds
  have := h S _ _ _ hok l (by simp)
  omega

/-! ### Non-vacuity of the hypotheses -/

example : ∃ fs, C01.exC1.fields? = some fs ∧ ∀ nd ∈ flatten C01.exC1, nd.via = false := ⟨_, rfl, by decide⟩
example : forProduct C01.exC1 [.prim .int8, .prim .int64] ["K"] = .error .slice := by rfl
example : forProduct C01.exC1 [.prim .int8] ["nope"] = .error .errType := by rfl
example : forProduct C01.exC1 [.prim .uint8] [] = .error .errType := by rfl
example : forSpectrum C01.exC1 [.prim .int16] ["K"] = .error .error := by rfl
example : forProduct (.prim .int) [.prim .int16] ["K"] = .error .reflect := by rfl
example : forProduct (.ptr (.ptr C01.exC1)) [.prim .int8] [] = .error .reflect := by rfl
example : forProduct (.ptr C01.exC1) [.prim .int8] [] = .error .error := by rfl
example : forSpectrum (.ptr C01.exC1) [.prim .int8, .prim .int64] ["K", "Q"] = .error .error := by rfl
example : forSpectrum (.ptr C01.exC1) [.prim .int8] ["nope"] = .error .errType := by rfl

end Golem.Props.C02
