/-
C12, translation tie — `pipe.Join` as REGENERATED from pipe/pipe.go on this run is the `joinPool` of Props/C12:
one copier per input (`wg.Add(len(in))`, `go join(c)` for every `c`), `out` of capacity `len(in)`, closed by the
closer goroutine after `wg.Wait()`.
-/
import Golem.Props.C12
import Golem.Props.Stage.PipeJoin
namespace Golem.Props.C12
open Golem.Go Golem.Go.Stage Golem.Go.Pool Golem.Model Golem.Model.DSL Golem.Props.Stage

variable {α : Type}

theorem gen_join_pool (k : Nat) (inCap : Nat → Nat) (par : Nat) (errch : Nat → Nat) :
    (Gen.Pipe.Join.cfg.pool Gen.Pipe.Join.init inCap par k errch false : Pool Unit α α) = joinPool k inCap := by
  rw [PipeJoin.cfg_gen]; exact StageCfg.pipeJoin_pool k inCap par errch

/-- the regenerated Join: the output is complete (a permutation of everything sent on all inputs) once every copier is gone -/
theorem join_complete_gen (k : Nat) (inCap : Nat → Nat) (par : Nat) (errch : Nat → Nat) {p : Pool Unit α α}
    (hr : Reachable (mkStage (Gen.Pipe.Join.body (α := α)) Gen.Pipe.Join.final)
            (Gen.Pipe.Join.cfg.pool Gen.Pipe.Join.init inCap par k errch false) p)
    (hc : p.cancelled = false) (hx : p.allExited = true) :
    (p.delivered 0 ++ (p.outs 0).buf).Perm ((List.range k).flatMap fun j => p.sent j) := by
  rw [PipeJoin.stage_gen, gen_join_pool] at hr
  exact join_complete k inCap hr hc hx

end Golem.Props.C12
