/-
C12 — Join merges all inputs: nothing lost or duplicated, per-input order kept, closes after —
and only after — every input has closed.

`pipe.Join(ctx, in₀ … in_{k-1})` is the pool `joinPool k`: copier `i` reads input `i`, all copiers
send on `out` (capacity `k`), a closer goroutine closes `out` after `wg.Wait()`. The send log
`emitted 0` is tagged with the copier, i.e. with the input every element came from.
Every `k ≥ 0`, every capacity, every schedule.
-/
import Golem.Lemmas.PoolComplete
import Golem.Props.C06
namespace Golem.Props.C12
open Golem.Go Golem.Go.Stage Golem.Go.Pool Golem.Model Golem.Lemmas Golem.Lemmas.StageSpec

variable {α : Type}

theorem copy_run (as : List α) : ((copyS (α := α)).run () as).ems = as.map fun a => ⟨0, a, .sel⟩ := by
  rw [run_stateless copyS (fun a => [⟨0, a, .sel⟩]) (by intro a; rfl) (by intro a; simp [copyS])]
  show List.flatMap (fun a => [(⟨0, a, .sel⟩ : Em α)]) as = _
  induction as with
  | nil => rfl
  | cons a as ih => simp only [List.flatMap_cons, ih, List.map_cons]; rfl

/-- FIFO of `out`: what was received plus what is buffered is the send log, in order -/
theorem join_fifo (k : Nat) (inCap : Nat → Nat) {p : Pool Unit α α}
    (hr : Reachable copyS (joinPool k inCap) p) :
    p.delivered 0 ++ (p.outs 0).buf = (p.emitted 0).map (·.2) :=
  (inv_reachable copyS k id () inCap _ [0] false (by decide) hr).fifoOut 0

/-- per-input order: the elements of the send log that came from input `i` are, in order, a prefix of
what was sent on input `i` — in every reachable state, cancelled or not -/
theorem join_per_input_order (k : Nat) (inCap : Nat → Nat) {p : Pool Unit α α}
    (hr : Reachable copyS (joinPool k inCap) p) (i : Nat) :
    ((p.emitted 0).filter (·.1 == i)).map (·.2) <+: p.sent i := by
  have hI := inv_reachable copyS k id () inCap _ [0] false (by decide) hr
  have ho := hI.outOf i 0
  have hw := worker_out_prefix hI i
  have hfo : (p.ws i).fout = [] ∨ True := Or.inr trivial
  -- the worker's sends on channel 0 are a prefix of its consumed list
  have h1 : onCh 0 (p.ws i).out <+: (p.ws i).hist := by
    obtain ⟨t, ht⟩ := hw
    rw [copy_run] at ht
    have : onCh 0 ((p.ws i).out ++ t) = (p.ws i).hist := by rw [ht]; simp
    rw [onCh_append] at this
    exact ⟨_, this⟩
  -- its consumed list is a prefix of what was sent on its input
  have h2 : (p.ws i).hist <+: p.sent i := by
    have hin := hI.inOf i i
    simp only [id, if_true] at hin
    have hall : (p.taken i).filter (·.1 == i) = p.taken i := by
      rw [List.filter_eq_self]
      intro x hx
      by_cases hxi : x.1 = i
      · simp [hxi]
      · exfalso
        have := hI.inOf x.1 i
        simp only [id, hxi, if_false] at this
        have hm : x ∈ (p.taken i).filter (·.1 == x.1) := by simp [List.mem_filter, hx]
        have : ((p.taken i).filter (·.1 == x.1)) = [] := by simpa using this
        rw [this] at hm; simp at hm
    rw [hall] at hin
    rw [← hin]
    exact ⟨_, hI.fifoIn i⟩
  -- exit-path sends do not exist for the copier
  have hf : (((p.ws i).fout.filter (·.1 == 0)).map (·.2)) = [] := by
    have := hI.worker i
    unfold WInv at this
    cases hctl : (p.ws i).ctl <;> simp only [hctl] at this
    · rw [this.2.2.2]; rfl
    · obtain ⟨_, _, _, _, _, h⟩ := this; rw [h]; rfl
    · rw [this.2.2.2]; rfl
    · have h := this.2.2.2.2.2.2
      have : (p.ws i).fout = [] := by
        have : (p.ws i).fout ++ _ = [] := h
        exact (List.append_eq_nil_iff.mp this).1
      rw [this]; rfl
    · have h := this.2.2.2.2.2.2
      have : (p.ws i).fout = [] := h
      rw [this]; rfl
  rw [ho, hf, List.append_nil]
  exact h1.trans h2

/-- nothing lost or duplicated: uncancelled, every copier gone ⇒ delivered ++ buffered is a permutation
of the union of everything sent on the `k` inputs -/
theorem join_complete (k : Nat) (inCap : Nat → Nat) {p : Pool Unit α α}
    (hr : Reachable copyS (joinPool k inCap) p) (hc : p.cancelled = false) (hx : p.allExited = true) :
    (p.delivered 0 ++ (p.outs 0).buf).Perm ((List.range k).flatMap fun i => p.sent i) := by
  have hI := inv_reachable copyS k id () inCap _ [0] false (by decide) hr
  have hn : p.nW = k := by have := reachable_nW hr; simpa [joinPool, Pool.init] using this
  refine (out_perm hI 0).trans ?_
  rw [hn]
  have hw : ∀ i ∈ List.range k,
      onCh 0 (p.ws i).out ++ (((p.ws i).fout.filter (·.1 == 0)).map (·.2)) = p.sent i := by
    intro i hi
    have hi' : i < p.nW := by rw [hn]; exact List.mem_range.mp hi
    obtain ⟨ho, hfo⟩ := exited_out_eq hI hc i (allExited_worker hx i hi')
    have heof := exited_eof hI hc (by intro s a; simp [copyS]) i (allExited_worker hx i hi')
    simp only [id] at heof
    -- worker i consumed everything sent on input i
    have hin := hI.inOf i i
    simp only [id, if_true] at hin
    have hall : (p.taken i).filter (·.1 == i) = p.taken i := by
      rw [List.filter_eq_self]
      intro x hx
      by_cases hxi : x.1 = i
      · simp [hxi]
      · exfalso
        have := hI.inOf x.1 i
        simp only [id, hxi, if_false] at this
        have hm : x ∈ (p.taken i).filter (·.1 == x.1) := by simp [List.mem_filter, hx]
        have : ((p.taken i).filter (·.1 == x.1)) = [] := by simpa using this
        rw [this] at hm; simp at hm
    rw [hall] at hin
    have hf := hI.fifoIn i
    rw [heof.2, List.append_nil, hin] at hf
    rw [ho, hfo, copy_run, hf]
    simp [copyS]
  rw [flatMap_congr' hw]

/-- `out` closes only after every copier has returned, i.e. after every input was closed and drained
(or the context cancelled); no panic -/
theorem join_close_only_after (k : Nat) (inCap : Nat → Nat) {p : Pool Unit α α}
    (hr : Reachable copyS (joinPool k inCap) p) (hcl : (p.outs 0).closed = true) :
    p.allExited = true ∧ p.panicked = false :=
  ⟨C06.pool_close_after_workers copyS k id () inCap _ [0] false (by decide) hr 0 hcl,
   C06.pool_no_panic copyS k id () inCap _ [0] false (by decide) hr⟩

/-- uncancelled: `out` closed ⇒ every input has been closed and drained -/
theorem join_closed_inputs_closed (k : Nat) (inCap : Nat → Nat) {p : Pool Unit α α}
    (hr : Reachable copyS (joinPool k inCap) p) (hc : p.cancelled = false) (hcl : (p.outs 0).closed = true) (i : Nat) (hi : i < k) :
    (p.ins i).closed = true ∧ (p.ins i).buf = [] := by
  have hI := inv_reachable copyS k id () inCap _ [0] false (by decide) hr
  have hn : p.nW = k := by have := reachable_nW hr; simpa [joinPool, Pool.init] using this
  have hx := (join_close_only_after k inCap hr hcl).1
  exact exited_eof hI hc (by intro s a; simp [copyS]) i (allExited_worker hx i (by omega))

/-- …and it does close: all inputs closed, output drained, nothing more the stage can do ⇒ closed.
With `k = 0` the hypotheses are vacuous: `out` closes at once. -/
theorem join_closes (k : Nat) (inCap : Nat → Nat) {p : Pool Unit α α}
    (hr : Reachable copyS (joinPool k inCap) p)
    (hcl : ∀ i, i < k → (p.ins i).closed = true)
    (hq : procNext copyS p = []) (hd : ∀ j, ¬ canRecv copyS p j) :
    p.allExited = true ∧ (p.outs 0).closed = true := by
  have hI := inv_reachable copyS k id () inCap _ [0] false (by decide) hr
  have := C06.pool_closes copyS k id () inCap _ [0] (by decide) hr hcl hq hd
    (fun i _ => C06.sel_never_blockedPlain _ C06.copy_sel (by intro s; rfl) hI i)
  exact ⟨this.1, this.2 0 (by simp)⟩

/-- nothing invented, in every reachable state (cancelled or not, copiers still running or not): whatever a consumer has
received from `out`, or still finds buffered there, was sent on one of the inputs -/
theorem join_no_invention (k : Nat) (inCap : Nat → Nat) {p : Pool Unit α α}
    (hr : Reachable copyS (joinPool k inCap) p) (x : α) (hx : x ∈ p.delivered 0 ++ (p.outs 0).buf) :
    ∃ i, x ∈ p.sent i := by
  rw [join_fifo k inCap hr] at hx
  obtain ⟨e, he, rfl⟩ := List.mem_map.mp hx
  refine ⟨e.1, (join_per_input_order k inCap hr e.1).subset ?_⟩
  exact List.mem_map.mpr ⟨e, List.mem_filter.mpr ⟨he, by simp⟩, rfl⟩

/-- … and never more copies of it than were sent: per input, the delivered-or-buffered elements that came from
that input number at most the elements sent on it -/
theorem join_no_duplication (k : Nat) (inCap : Nat → Nat) {p : Pool Unit α α}
    (hr : Reachable copyS (joinPool k inCap) p) (i : Nat) :
    ((p.emitted 0).filter (·.1 == i)).length ≤ (p.sent i).length := by
  have := (join_per_input_order k inCap hr i).length_le
  simpa using this

end Golem.Props.C12
