/-
C05, part 3 — the same statements over the definitions REGENERATED from pipe/pipe.go and
pipe/function.go on every run (go/xlate family `stages`).  `*_gen` (Props/Stage/*.lean) prove the
regenerated loop bodies, deferred sends, capacities and close orders equal to the hand-written
`Model/Stages`, `Model/StageCfg`; `*_network_gen` below restate the network theorems of Props/C05
for the regenerated stage running on the regenerated pool.  (A separate module so that properties
importing Props/C05 do not depend on stages they do not talk about.)
-/
import Golem.Props.C05
import Golem.Gen.PipeText
import Golem.Model.GoText
import Golem.Props.Stage.PipeMap
import Golem.Props.Stage.PipeFMap
import Golem.Props.Stage.PipeFilter
import Golem.Props.Stage.PipePartition
import Golem.Props.Stage.PipeTakeWhile
import Golem.Props.Stage.PipeTake
import Golem.Props.Stage.PipeFold
import Golem.Props.Stage.PipeForEach
import Golem.Props.Stage.PipeVoid
/-! ## Part 3: the stages as regenerated from the Go source on this run -/
namespace Golem.Props.C05
open Golem.Go Golem.Go.Stage Golem.Go.Pool Golem.Model Golem.Model.DSL Golem.Props.Stage

variable {α β ε : Type}

/-- the pool `make`/`go`/`close` of a regenerated one-goroutine stage describe -/
abbrev genPool {σ γ : Type} (c : Cfg) (s0 : σ) (inCap : Nat) (errch : Nat → Nat) : Pool σ α γ :=
  c.pool s0 (fun _ => inCap) 0 0 errch false

theorem map_network_gen (m : ErrMode) (f : α → β × Option ε) (g : α → β) (hf : ∀ a, f a = (g a, none))
    (inCap : Nat) {p : Pool Unit α (β ⊕ ε)}
    (hr : Reachable (mkStage (Gen.Pipe.Map.body f (PipeCatch.catchOf m)) Gen.Pipe.Map.final)
            (genPool Gen.Pipe.Map.cfg Gen.Pipe.Map.init inCap (PipeCatch.errchOf m)) p)
    (hc : p.cancelled = false) (hx : Ctl.isExited (p.ws 0).ctl = true) (hcl : (p.ins 0).closed = true) :
    p.delivered 0 ++ (p.outs 0).buf = (p.sent 0).map (fun a => Sum.inl (g a)) ∧
    p.delivered 1 ++ (p.outs 1).buf = [] := by
  rw [PipeMap.stage_gen, genPool, PipeMap.cfg_gen, Cfg.pool_one _ rfl] at hr
  exact map_network m (toExcept f) g (by intro a; simp [toExcept, hf]) inCap _ hr hc hx hcl

theorem flatMap_network_gen (m : ErrMode) (g : α → List β × Option ε) (hg : ∀ a, (g a).2 = none)
    (inCap : Nat) {p : Pool Unit α (β ⊕ ε)}
    (hr : Reachable (mkStage (Gen.Pipe.FMap.body g (PipeCatch.catchOfF m)) Gen.Pipe.FMap.final)
            (genPool Gen.Pipe.FMap.cfg Gen.Pipe.FMap.init inCap (PipeCatch.errchOfF m)) p)
    (hc : p.cancelled = false) (hx : Ctl.isExited (p.ws 0).ctl = true) (hcl : (p.ins 0).closed = true) :
    p.delivered 0 ++ (p.outs 0).buf = ((p.sent 0).flatMap fun a => (g a).1).map Sum.inl := by
  rw [PipeFMap.stage_gen, genPool, PipeFMap.cfg_gen, Cfg.pool_one _ rfl] at hr
  exact flatMap_network m g hg inCap _ hr hc hx hcl

theorem filter_network_gen (f : α → Bool × Option ε) (pr : α → Bool) (hf : ∀ a, f a = (pr a, none))
    (inCap : Nat) (errch : Nat → Nat) {p : Pool Unit α α}
    (hr : Reachable (mkStage (Gen.Pipe.Filter.body f) Gen.Pipe.Filter.final)
            (genPool Gen.Pipe.Filter.cfg Gen.Pipe.Filter.init inCap errch) p)
    (hc : p.cancelled = false) (hx : Ctl.isExited (p.ws 0).ctl = true) (hcl : (p.ins 0).closed = true) :
    p.delivered 0 ++ (p.outs 0).buf = (p.sent 0).filter pr := by
  rw [PipeFilter.stage_gen, genPool, PipeFilter.cfg_gen, Cfg.pool_one _ rfl] at hr
  exact filter_network (toExcept f) pr (by intro a; simp [toExcept, hf]) inCap _ hr hc hx hcl

theorem partition_network_gen (f : α → Bool × Option ε) (pr : α → Bool) (hf : ∀ a, f a = (pr a, none))
    (inCap : Nat) (errch : Nat → Nat) {p : Pool Unit α α}
    (hr : Reachable (mkStage (Gen.Pipe.Partition.body f) Gen.Pipe.Partition.final)
            (genPool Gen.Pipe.Partition.cfg Gen.Pipe.Partition.init inCap errch) p)
    (hc : p.cancelled = false) (hx : Ctl.isExited (p.ws 0).ctl = true) (hcl : (p.ins 0).closed = true) :
    p.delivered 0 ++ (p.outs 0).buf = (p.sent 0).filter pr ∧
    p.delivered 1 ++ (p.outs 1).buf = (p.sent 0).filter (fun a => !pr a) := by
  rw [PipePartition.stage_gen, genPool, PipePartition.cfg_gen, Cfg.pool_one _ rfl] at hr
  exact partition_network (toExcept f) pr (by intro a; simp [toExcept, hf]) inCap _ hr hc hx hcl

theorem takeWhile_network_gen (f : α → Bool × Option ε) (pr : α → Bool) (hf : ∀ a, f a = (pr a, none))
    (inCap : Nat) (errch : Nat → Nat) {p : Pool Unit α α}
    (hr : Reachable (mkStage (Gen.Pipe.TakeWhile.body f) Gen.Pipe.TakeWhile.final)
            (genPool Gen.Pipe.TakeWhile.cfg Gen.Pipe.TakeWhile.init inCap errch) p)
    (hc : p.cancelled = false) (hx : Ctl.isExited (p.ws 0).ctl = true) (hcl : (p.ins 0).closed = true) :
    p.delivered 0 ++ (p.outs 0).buf = (p.sent 0).takeWhile pr := by
  rw [PipeTakeWhile.stage_gen, genPool, PipeTakeWhile.cfg_gen, Cfg.pool_one _ rfl] at hr
  exact takeWhile_network (toExcept f) pr (by intro a; simp [toExcept, hf]) inCap _ hr hc hx hcl

/-- `Take` as regenerated: the `n <= 0` guard closes the outputs at once without starting a goroutine
(a pool with no worker), otherwise one worker counts down from `n` -/
def genTakePool (n : Int) (inCap : Nat) : Pool Int α α :=
  if Gen.Pipe.Take.early n then
    Pool.init 0 (fun _ => 0) (Gen.Pipe.Take.init n) (fun _ => inCap)
      (fun k => (Gen.Pipe.Take.cfg.caps inCap 0 0 id).getD k 0) Gen.Pipe.Take.earlyCloses false
  else genPool Gen.Pipe.Take.cfg (Gen.Pipe.Take.init n) inCap id

theorem take_network_gen (n : Nat) (inCap : Nat) {p : Pool Int α α}
    (hr : Reachable (mkStage (Gen.Pipe.Take.body (α := α)) Gen.Pipe.Take.final) (genTakePool (n : Int) inCap) p)
    (hc : p.cancelled = false) (hx : 1 ≤ n → Ctl.isExited (p.ws 0).ctl = true) (hcl : (p.ins 0).closed = true) :
    p.delivered 0 ++ (p.outs 0).buf = (p.sent 0).take n := by
  have hp : (genTakePool (n : Int) inCap : Pool Int α α) = takePool (n : Int) inCap false := by
    unfold genTakePool takePool
    rw [PipeTake.early_gen, PipeTake.earlyCloses_gen, genPool, PipeTake.cfg_gen, Cfg.pool_one _ rfl]
    by_cases h : (n : Int) ≤ 0 <;> simp [h, PipeTake.init_gen, StageCfg.pipeTake, StageCfg.pipeFilter, pipePool, Pool.init]
  rw [PipeTake.stage_gen, hp] at hr
  exact take_network n inCap hr hc hx hcl

theorem fold_network_gen (c : α → α → α) (e : α) (inCap : Nat) (errch : Nat → Nat) {p : Pool α α α}
    (hr : Reachable (mkStage (Gen.Pipe.Fold.body c) Gen.Pipe.Fold.final)
            (genPool Gen.Pipe.Fold.cfg (Gen.Pipe.Fold.init e) inCap errch) p)
    (hc : p.cancelled = false) (hx : Ctl.isExited (p.ws 0).ctl = true) (hcl : (p.ins 0).closed = true) :
    p.delivered 0 ++ (p.outs 0).buf = [(p.sent 0).foldl c e] := by
  rw [PipeFold.stage_gen, genPool, PipeFold.cfg_gen, Cfg.pool_one _ rfl] at hr
  exact fold_network c e inCap _ hr hc hx hcl

/-- ForEach: the regenerated loop body visits every consumed element once, in order (ghost log), and emits nothing -/
theorem forEach_gen (f : α → α × Option ε) (as : List α) :
    ((mkStage (Gen.Pipe.ForEach.body f) Gen.Pipe.ForEach.final).run Gen.Pipe.ForEach.init as).s = as ∧
    ((mkStage (Gen.Pipe.ForEach.body f) Gen.Pipe.ForEach.final).run Gen.Pipe.ForEach.init as).ems = [] := by
  rw [PipeForEach.stage_gen]; exact forEach_spec as

theorem void_gen (as : List α) :
    ((mkStage (Gen.Pipe.Void.body (α := α)) Gen.Pipe.Void.final).run Gen.Pipe.Void.init as).ems = [] := by
  rw [PipeVoid.stage_gen]; exact void_spec as

/-- `Seq` / `ToSeq` (no goroutine): the source text is, line for line, the one `seqChan` / `toSeq` (Model/Stages.lean) were
written against — a syntactic tie (go/xlate family `gotext`) -/
theorem seq_text : Gen.PipeText.Seq_text = GoText.Seq_text := rfl
theorem toSeq_text : Gen.PipeText.ToSeq_text = GoText.ToSeq_text := rfl

end Golem.Props.C05
