/-
C19 — list.Seq and slice.Seq implement the same persistent sequence ADT.

Property theorems only (proof work is in `Golem.Lemmas.ISeq`).  All statements are about the
definitions of `Golem.Model.ISeq`, which are the very definitions the oracle driver executes
and which the harness compares with /repo/internal/seq on every run.

Conventions.
* `L.*` is list/list.go, `S.*` is slice/slice.go over an explicit heap of backing arrays
  (`S.goAppend` writes in place when capacity allows — persistence of `Cons` is proved, not
  assumed).  `slack` is Go's (unspecified) over-allocation policy of `append`; every theorem
  holds for every `slack`.
* `L.elems s` / `S.elems h s` is the element list of a value.
* `WFL s` = "the cached `len` is the number of cells"; `S.WF h s` = "the header lies inside an
  allocated array".  Both are invariants of every value a script can reach (`len_cached`,
  `slice_wf`); the laws for *arbitrary* values are stated under them because the Go code relies
  on them (`list.Tail` computes `len-1` blindly).
* A Go panic ends a script with the observation `panic` on both sides (`Head`/`Tail` of an empty
  sequence: nil dereference in list, index/bounds panic in slice).
-/
import Golem.Model.ISeq
import Golem.Lemmas.ISeq

namespace Golem.Props.C19
open Golem.Model.ISeq Golem.Lemmas.ISeq

variable {A : Type}

/-! ## ADT laws, linked-list implementation -/

/-- `New(xs...)` has length `len(xs)` and the elements `xs`, in order. -/
theorem list_new (xs : List A) :
    L.length (L.new xs) = xs.length ∧ L.elems (L.new xs) = xs ∧ WFL (L.new xs) :=
  ⟨rfl, new_elems xs, new_WFL xs⟩

/-- `Head(Cons(x, s)) = x` — for every `s`, no hypothesis. -/
theorem list_head_cons (x : A) (s : LSeq A) : L.head (L.cons x s) = .ok x := rfl

/-- `Tail(Cons(x, s))` is `s` itself (same cells, same cached length). -/
theorem list_tail_cons (x : A) (s : LSeq A) : L.tail (L.cons x s) = .ok s := by
  cases s; simp [L.tail, L.cons]

/-- `Length(Cons(x, s)) = Length(s) + 1`, and the elements are `x` followed by those of `s`. -/
theorem list_length_cons (x : A) (s : LSeq A) :
    L.length (L.cons x s) = L.length s + 1 ∧ L.elems (L.cons x s) = x :: L.elems s := ⟨rfl, rfl⟩

/-- `IsEmpty` is true exactly for length 0; for well-formed values exactly for no elements. -/
theorem list_isEmpty_iff (s : LSeq A) :
    (L.isEmpty s = true ↔ L.length s = 0) ∧ (WFL s → (L.isEmpty s = true ↔ L.elems s = [])) := by
  refine ⟨by simp [L.isEmpty, L.length], fun w => ?_⟩
  unfold WFL at w
  simp [L.isEmpty, w]

/-- `Tail` of a non-empty well-formed value drops exactly the first element and stays
well-formed; `Head` returns that first element. -/
theorem list_head_tail (s : LSeq A) (a : A) (l : List A) (w : WFL s) (h : L.elems s = a :: l) :
    L.head s = .ok a ∧ ∃ s', L.tail s = .ok s' ∧ L.elems s' = l ∧ WFL s' ∧ L.length s' = L.length s - 1 := by
  obtain ⟨_, h2, s', h3, h4, h5⟩ := representsL.cons s a l ⟨w, h⟩
  refine ⟨h2, s', h3, h5, h4, ?_⟩
  simp only [L.view, L.tail] at h3
  cases hl : s.list <;> simp [hl] at h3
  subst h3; rfl

/-! ## ADT laws, slice implementation -/

/-- `New(xs...)`: the slice the caller passed, aliased; length `len(xs)`, elements `xs`. -/
theorem slice_new (h : Heap A) (xs : List A) :
    let h' := (S.lit h xs).1
    let p := (S.lit h xs).2
    S.new p = p ∧ S.length (S.new p) = xs.length ∧ S.elems h' (S.new p) = xs ∧ S.WF h' (S.new p) := by
  obtain ⟨_, w, he⟩ := lit_spec h xs
  exact ⟨rfl, rfl, he, w⟩

/-- `Head(Cons(x, s)) = x`, `Tail(Cons(x, s))` has the elements of `s`,
`Length(Cons(x, s)) = Length(s) + 1`. -/
theorem slice_cons_laws [Inhabited A] (slack : Nat → Nat) (h : Heap A) (x : A) (s : Slice) (w : S.WF h s) :
    let h' := (S.cons slack h x s).1
    let c := (S.cons slack h x s).2
    S.WF h' c ∧ S.elems h' c = x :: S.elems h s ∧
    S.head h' c = .ok x ∧
    (∃ t, S.tail c = .ok t ∧ S.WF h' t ∧ S.elems h' t = S.elems h s) ∧
    S.length c = S.length s + 1 := by
  obtain ⟨_, w', he⟩ := cons_spec slack h x s w
  obtain ⟨_, hh, t, ht, wt, het⟩ := tail_spec w' he
  refine ⟨w', he, hh, ⟨t, ht, wt, het⟩, ?_⟩
  have l1 := elems_length w'
  have l2 := elems_length w
  simp only [S.length]
  rw [← l1, he, ← l2]; simp

/-- `IsEmpty` is true exactly for length 0; for well-formed headers exactly for no elements. -/
theorem slice_isEmpty_iff (h : Heap A) (s : Slice) :
    (S.isEmpty s = true ↔ S.length s = 0) ∧ (S.WF h s → (S.isEmpty s = true ↔ S.elems h s = [])) := by
  refine ⟨by simp [S.isEmpty, S.length], fun w => ?_⟩
  have := elems_length w
  simp [S.isEmpty, ← this]

/-- `Head`/`Tail` of a non-empty well-formed slice. -/
theorem slice_head_tail (h : Heap A) (s : Slice) (a : A) (l : List A) (w : S.WF h s) (he : S.elems h s = a :: l) :
    S.head h s = .ok a ∧ ∃ s', S.tail s = .ok s' ∧ S.elems h s' = l ∧ S.WF h s' ∧ S.length s' = S.length s - 1 := by
  obtain ⟨_, hh, s', ht, ws', he'⟩ := tail_spec w he
  refine ⟨hh, s', ht, he', ws', ?_⟩
  unfold S.tail at ht
  split at ht
  · simp at ht; subst ht; simp [S.length]; omega
  · simp at ht

/-! ## The cached length is right on everything a script can reach -/

/-- In every state visited by any script, every register of the list implementation has
`len` = number of cells (so `Length`, `IsEmpty`, and `Tail`'s blind `len-1` are right). -/
theorem len_cached (M : Monoid A) (sc : List (Op A)) :
    ∀ regs ∈ statesWith (stepL M) [] sc, ∀ s ∈ regs, L.length s = ((L.elems s).length : Int) := by
  intro regs hr s hs
  have := (statesWith_inv (stepL M) InvL KeepL (fun _ _ _ h => h)
    (fun _ _ _ ab bc i s h => bc i s (ab i s h))
    (fun st op st' o inv h => stepL_inv M st op st' o inv h) sc [] (by intro s h; cases h)).1 regs hr
  exact this.1 s hs

/-- The same for the slice implementation: every reachable header lies inside its array, so
`Length` is the number of visible elements. -/
theorem slice_wf [Inhabited A] (slack : Nat → Nat) (M : Monoid A) (sc : List (Op A)) :
    ∀ st ∈ statesWith (stepS slack M) ⟨[], []⟩ sc, ∀ s ∈ st.regs,
      S.WF st.heap s ∧ S.length s = ((S.elems st.heap s).length : Int) := by
  intro st hr s hs
  have := (statesWith_inv (stepS slack M) InvS KeepS (fun _ => ⟨fun _ _ h => h, Ext.refl _⟩)
    (fun _ _ _ ab bc => ⟨fun i s h => bc.1 i s (ab.1 i s h), ab.2.trans bc.2⟩)
    (fun st op st' o inv h => stepS_inv slack M st op st' o inv h) sc ⟨[], []⟩ (by intro s h; cases h)).1 st hr
  have w := this.1 s hs
  exact ⟨w, by simp [S.length, elems_length w]⟩

/-! ## Persistence -/

/-- `Cons` on slices changes no backing array that existed before the call: every slice header
`v` into the old heap — the argument `s`, any other register, the caller's original slice, any
alias of them — shows the same elements afterwards.  (`S.cons` goes through the general
`append`, which *does* write in place when the capacity allows.) -/
theorem slice_cons_persistent [Inhabited A] (slack : Nat → Nat) (h : Heap A) (x : A) (s : Slice) (w : S.WF h s)
    (v : Slice) (hv : v.arr < h.length) :
    S.elems (S.cons slack h x s).1 v = S.elems h v ∧ S.arrOf (S.cons slack h x s).1 v = S.arrOf h v :=
  ⟨elems_ext (cons_spec slack h x s w).1 v hv, arrOf_ext (cons_spec slack h x s w).1 v hv⟩

/-- Building the argument slice of `New` allocates; it changes no existing array.  `Tail`,
`Head`, `Length`, `IsEmpty` and `New` itself do not take the heap at all (they cannot write). -/
theorem slice_new_persistent (h : Heap A) (xs : List A) (v : Slice) (hv : v.arr < h.length) :
    S.elems (S.lit h xs).1 v = S.elems h v :=
  elems_ext (lit_spec h xs).1 v hv

/-- Along any script on the slice implementation: for two visited states `st` (earlier) and
`st'` (later), every register of `st` is still the same header in `st'` and shows the same
elements in the later heap; moreover no array of the earlier heap has changed at all. -/
theorem persistent_slice [Inhabited A] (slack : Nat → Nat) (M : Monoid A) (sc : List (Op A)) :
    List.Pairwise (fun st st' : SState A =>
        (∀ (i : Nat) s, st.regs[i]? = some s →
            st'.regs[i]? = some s ∧ S.elems st'.heap s = S.elems st.heap s) ∧
        (∀ (k : Nat), k < st.heap.length → st'.heap[k]? = st.heap[k]?))
      (statesWith (stepS slack M) ⟨[], []⟩ sc) := by
  have key := statesWith_inv (stepS slack M) InvS KeepS (fun _ => ⟨fun _ _ h => h, Ext.refl _⟩)
    (fun _ _ _ ab bc => ⟨fun i s h => bc.1 i s (ab.1 i s h), ab.2.trans bc.2⟩)
    (fun st op st' o inv h => stepS_inv slack M st op st' o inv h) sc ⟨[], []⟩ (by intro s h; cases h)
  refine List.Pairwise.imp_of_mem ?_ key.2
  intro st st' hst _ keep
  have inv : InvS st := (key.1 st hst).1
  refine ⟨fun i s h => ⟨keep.1 i s h, ?_⟩, keep.2.2⟩
  exact elems_ext keep.2 s (inv s (List.mem_of_getElem? h)).1

/-- Along any script on the list implementation every register keeps its value (Go's cells are
never assigned after construction, so a value *is* its element list). -/
theorem persistent_list (M : Monoid A) (sc : List (Op A)) :
    List.Pairwise (fun regs regs' : List (LSeq A) =>
        ∀ (i : Nat) s, regs[i]? = some s → regs'[i]? = some s)
      (statesWith (stepL M) [] sc) :=
  (statesWith_inv (stepL M) InvL KeepL (fun _ _ _ h => h)
    (fun _ _ _ ab bc i s h => bc i s (ab i s h))
    (fun st op st' o inv h => stepL_inv M st op st' o inv h) sc [] (by intro s h; cases h)).2

/-! ## Fold -/

/-- `Foldable.Fold` over the list implementation is the left fold of the elements from
`m.Empty()`; the loop runs `Length` rounds (any larger fuel gives the same). -/
theorem fold_left_list (M : Monoid A) (s : LSeq A) (w : WFL s) (fuel : Nat) (hf : (L.length s).toNat ≤ fuel) :
    fold L.view M fuel s = .ok ((L.elems s).foldl M.combine M.empty) :=
  fold_list M.combine M.empty s w fuel (by rw [← length_toNat_list s w]; exact hf)

/-- The same on the slice implementation. -/
theorem fold_left_slice (M : Monoid A) (h : Heap A) (s : Slice) (w : S.WF h s) (fuel : Nat)
    (hf : (S.length s).toNat ≤ fuel) :
    fold (S.view h) M fuel s = .ok ((S.elems h s).foldl M.combine M.empty) :=
  fold_slice M.combine M.empty h s w fuel (by rw [← length_toNat_slice h s w]; exact hf)

/-- Reading a sequence out with `IsEmpty/Head/Tail` (what the harness does) yields `elems`. -/
theorem walk_elems (s : LSeq A) (w : WFL s) (h : Heap A) (p : Slice) (wp : S.WF h p) :
    walk L.view (L.length s).toNat s = .ok (L.elems s) ∧
    walk (S.view h) (S.length p).toNat p = .ok (S.elems h p) := by
  constructor
  · have := fold_list (fun acc a => acc ++ [a]) [] s w (L.length s).toNat
      (by rw [length_toNat_list s w]; exact Nat.le_refl _)
    rw [foldl_snoc, List.nil_append] at this; exact this
  · have := fold_slice (fun acc a => acc ++ [a]) [] h p wp (S.length p).toNat
      (by rw [length_toNat_slice h p wp]; exact Nat.le_refl _)
    rw [foldl_snoc, List.nil_append] at this; exact this

/-! ## Both implementations give the same observations on every script -/

/-- For every script (of any length, well-formed or not), every monoid and every allocation
policy, the observation lists of the two implementations coincide — element lists of all
constructed sequences, `Head`, `Length`, `IsEmpty`, `Fold` results, and where a panic stops
the script. -/
theorem script_equiv [Inhabited A] (slack : Nat → Nat) (M : Monoid A) (sc : List (Op A)) :
    runL M sc = runS slack M sc :=
  run_rel slack M sc [] ⟨[], []⟩ rel_init

/-! ## Non-vacuity -/

/-- A non-commutative, non-associative "monoid" (what the harness uses). -/
def M31 : Monoid Int := ⟨7, fun a b => (a * 31 + b) % 1000003⟩

def demo : List (Op Int) :=
  [.new [1, 2, 3], .cons 9 0, .tail 1, .tail 2, .head 3, .length 1, .isEmpty 0, .fold 1, .new [], .isEmpty 4, .head 4, .length 0]

example : runL M31 demo =
    [.seq [1, 2, 3] 3, .seq [9, 1, 2, 3] 4, .seq [1, 2, 3] 3, .seq [2, 3] 2, .val 2, .int 4, .bool false,
     .val (((((7 * 31 + 9) * 31 + 1) * 31 + 2) * 31 + 3) % 1000003), .seq [] 0, .bool true, .panic] := by decide

example : runS (fun n => n) M31 demo = runL M31 demo := by decide

/-- `append` really writes in place when it can: appending to a slice with spare capacity
changes what an alias with a longer window sees (so `slice_cons_persistent` is not vacuous). -/
example :
    let h : Heap Int := [[1, 2, 3]]
    let alias : Slice := ⟨0, 0, 3, 3⟩
    let short : Slice := ⟨0, 0, 1, 3⟩
    S.elems (S.goAppend (fun _ => 0) h short [8]).1 alias = [1, 8, 3] := by decide

example : WFL (L.new [1, 2, 3]) ∧ ¬ WFL (⟨5, .nil⟩ : LSeq Int) := by
  constructor <;> simp [WFL, L.new, L.elems, L.newLoop, Cells.toList]

/-- left fold from the identity of an associative operation peels off the first element -/
theorem foldl_cons_monoid (c : A → A → A) (e : A) (assoc : ∀ x y z, c (c x y) z = c x (c y z))
    (idl : ∀ x, c e x = x) (idr : ∀ x, c x e = x) (x : A) (l : List A) :
    (x :: l).foldl c e = c x (l.foldl c e) := by
  have gen : ∀ (l : List A) (a : A), l.foldl c a = c a (l.foldl c e) := by
    intro l
    induction l with
    | nil => intro a; simp [idr]
    | cons y ys ih => intro a; simp only [List.foldl_cons]; rw [ih (c a y), ih (c e y), idl, assoc]
  simp only [List.foldl_cons, idl]
  exact gen l x

/-- For a lawful monoid, `Fold` over `Cons(x, s)` is `Combine(x, Fold(s))` on the list implementation: the structural
recursion a caller expects from a fold, derived from the loop the code runs. -/
theorem fold_cons_list (M : Monoid A) (assoc : ∀ x y z, M.combine (M.combine x y) z = M.combine x (M.combine y z))
    (idl : ∀ x, M.combine M.empty x = x) (idr : ∀ x, M.combine x M.empty = x)
    (x : A) (s : LSeq A) (w : WFL s) :
    ∃ r, fold L.view M (L.length s).toNat s = .ok r ∧
      fold L.view M (L.length (L.cons x s)).toNat (L.cons x s) = .ok (M.combine x r) := by
  have w' := cons_WFL x s w
  refine ⟨_, fold_left_list M s w _ (Nat.le_refl _), ?_⟩
  rw [fold_left_list M (L.cons x s) w' _ (Nat.le_refl _), (list_length_cons x s).2,
    foldl_cons_monoid M.combine M.empty assoc idl idr]

end Golem.Props.C19
