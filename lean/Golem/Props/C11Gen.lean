/-
C11, translation tie — the loops of `pipe.Emit` and `pipe.Unfold` as REGENERATED from pipe/pipe.go and
pipe/function.go on this run (go/xlate family `sources`): one iteration of the regenerated loop body performs
exactly the actions of `emitIter` / `unfoldIter` (Model/SourceDSL.lean), the per-iteration specifications that
Go/Sources.lean — the network model all theorems of Props/C11 are about — follows control point by control point
(`emit_model_iter`, `unfold_model_iter` below relate those specifications to the model's successor function).
-/
import Golem.Props.C11
import Golem.Props.Stage.PipeSources
namespace Golem.Props.C11
open Golem.Go Golem.Go.Sources Golem.Model Golem.Model.DSLT Golem.Props.Stage

variable {β ε : Type}

/-- the model's user function for Emit, read off a Go-style `(value, error)` function -/
def fnOfEmit (m : ErrMode) (freq : Nat) (f : Nat → β × Option ε) (u : β → β × Option ε) : Fn β ε :=
  { mode := m, freq := freq, emitF := DSL.toExcept f, unfoldF := u }

/-- Emit in the network model: from the loop head the process sleeps `freq`, calls `f i`, and then stands at the
control point that offers the value on `out` (when `emitIter` says "send the value") or hands the error to `catch`
(when it says `catchAct`) — the model walks through `emitIter` -/
theorem emit_model_iter (m : ErrMode) (freq : Nat) (f : Nat → β × Option ε) (u : β → β × Option ε) (p : Src β ε) (i : Nat) :
    procNext (fnOfEmit m freq f u) { p with pc := .eLoop i } = [{ p with pc := .eSleep i (p.now + freq) }] ∧
    (procNext (fnOfEmit m freq f u) { p with pc := .eApply i } =
      match (f i).2 with
      | none => [{ p with pc := .eOffer i (f i).1, callsE := p.callsE ++ [(i, p.now)] }]
      | some e => [{ p with pc := .eCatch i e, callsE := p.callsE ++ [(i, p.now)] }]) ∧
    ((emitIter m freq f i).1.length = 2) := by
  refine ⟨rfl, ?_, ?_⟩
  · simp only [procNext, fnOfEmit, DSL.toExcept]
    cases h : (f i).2 <;> simp
  · simp only [emitIter]; cases (f i).2 <;> rfl

/-- Unfold in the network model: after the offer of `seed` the process calls `f seed`, assigns the returned value
to `seed` in either case, and goes back to the offer or to `catch` — as `unfoldIter` says -/
theorem unfold_model_iter (m : ErrMode) (freq : Nat) (f : Nat → β × Option ε) (u : β → β × Option ε) (p : Src β ε) (s : β) :
    procNext (fnOfEmit m freq f u) { p with pc := .uApply s } =
      (match (u s).2 with
       | none => [{ p with pc := .uOffer (u s).1, callsU := p.callsU ++ [(s, p.now)], iters := p.iters + 1 }]
       | some e => [{ p with pc := .uCatch (u s).1 e, callsU := p.callsU ++ [(s, p.now)] }]) ∧
    (unfoldIter m u s).1 = (u s).1 := by
  refine ⟨?_, ?_⟩
  · simp only [procNext, fnOfEmit]
    cases h : (u s).2 <;> simp
  · simp only [unfoldIter]; cases (u s).2 <;> rfl

/-- capacities: `out` as requested, `exx` from the regenerated `errch` = the model's `exxCap` -/
theorem gen_source_caps (m : ErrMode) (cap ops : Nat) :
    Gen.PipeSrc.Emit.cfg.caps cap ops (PipeSources.errchOf m) = [cap, exxCap m cap] ∧
    Gen.PipeSrc.Unfold.cfg.caps cap ops (PipeSources.errchOf m) = [cap, exxCap m cap] := by
  cases m <;> exact ⟨rfl, rfl⟩

/-- deferred closes: `exx` first, then `out` (the model's closeExx → closeOut) -/
theorem gen_source_closes : Gen.PipeSrc.Emit.cfg.closes = [[1, 0]] ∧ Gen.PipeSrc.Unfold.cfg.closes = [[1, 0]] := ⟨rfl, rfl⟩

end Golem.Props.C11
