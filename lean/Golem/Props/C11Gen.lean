/-
C11, translation tie — the loops of `pipe.Emit` and `pipe.Unfold` as REGENERATED from pipe/pipe.go and
pipe/function.go on this run (go/xlate family `sources`): one iteration of the regenerated loop body performs
exactly the actions of `emitIter` / `unfoldIter` (Model/SourceDSL.lean), the per-iteration specifications that
Go/Sources.lean — the network model all theorems of Props/C11 are about — follows control point by control point
(`emit_model_iter`, `unfold_model_iter` below relate those specifications to the model's successor function).
-/
import Golem.Props.C11
import Golem.Props.Stage.PipeSources
namespace Golem.Props.C11
open Golem.Go Golem.Go.Sources Golem.Model Golem.Model.DSLT Golem.Props.Stage

variable {β ε : Type}

/-- the model's user function for Emit, read off a Go-style `(value, error)` function -/
def fnOfEmit (m : ErrMode) (freq : Nat) (f : Nat → β × Option ε) (u : β → β × Option ε) : Fn β ε :=
  { mode := m, freq := freq, emitF := DSL.toExcept f, unfoldF := u }

/-- Emit in the network model: from the loop head the process sleeps `freq`, calls `f i`, and then stands at the
control point that offers the value on `out` (when `emitIter` says "send the value") or hands the error to `catch`
(when it says `catchAct`) — the model walks through `emitIter` -/
theorem emit_model_iter (m : ErrMode) (freq : Nat) (f : Nat → β × Option ε) (u : β → β × Option ε) (p : Src β ε) (i : Nat) :
    procNext (fnOfEmit m freq f u) { p with pc := .eLoop i } = [{ p with pc := .eSleep i (p.now + freq) }] ∧
    (procNext (fnOfEmit m freq f u) { p with pc := .eApply i } =
      match (f i).2 with
      | none => [{ p with pc := .eOffer i (f i).1, callsE := p.callsE ++ [(i, p.now)] }]
      | some e => [{ p with pc := .eCatch i e, callsE := p.callsE ++ [(i, p.now)] }]) ∧
    ((emitIter m freq f i).1.length = 2) := by
  refine ⟨rfl, ?_, ?_⟩
  · simp only [procNext, fnOfEmit, DSL.toExcept]
    cases h : (f i).2 <;> simp
  · simp only [emitIter]; cases (f i).2 <;> rfl

/-- Unfold in the network model: after the offer of `seed` the process calls `f seed`, assigns the returned value
to `seed` in either case, and goes back to the offer or to `catch` — as `unfoldIter` says -/
theorem unfold_model_iter (m : ErrMode) (freq : Nat) (f : Nat → β × Option ε) (u : β → β × Option ε) (p : Src β ε) (s : β) :
    procNext (fnOfEmit m freq f u) { p with pc := .uApply s } =
      (match (u s).2 with
       | none => [{ p with pc := .uOffer (u s).1, callsU := p.callsU ++ [(s, p.now)], iters := p.iters + 1 }]
       | some e => [{ p with pc := .uCatch (u s).1 e, callsU := p.callsU ++ [(s, p.now)] }]) ∧
    (unfoldIter m u s).1 = (u s).1 := by
  refine ⟨?_, ?_⟩
  · simp only [procNext, fnOfEmit]
    cases h : (u s).2 <;> simp
  · simp only [unfoldIter]; cases (u s).2 <;> rfl

/-- capacities: `out` as requested, `exx` from the regenerated `errch` = the model's `exxCap` -/
theorem gen_source_caps (m : ErrMode) (cap ops : Nat) :
    Gen.PipeSrc.Emit.cfg.caps cap ops (PipeSources.errchOf m) = [cap, exxCap m cap] ∧
    Gen.PipeSrc.Unfold.cfg.caps cap ops (PipeSources.errchOf m) = [cap, exxCap m cap] := by
  cases m <;> exact ⟨rfl, rfl⟩

/-- deferred closes: `exx` first, then `out` (the model's closeExx → closeOut) -/
theorem gen_source_closes : Gen.PipeSrc.Emit.cfg.closes = [[1, 0]] ∧ Gen.PipeSrc.Unfold.cfg.closes = [[1, 0]] := ⟨rfl, rfl⟩

/-! ### the model's control-flow graph is the iteration specification

`pcAct` names the action a control point of `Go/Sources.lean` stands for; the `*_walk` theorems show that the process
component of the model moves from control point to control point exactly along one iteration of `emitIter` /
`unfoldIter` (besides the exits a `select` with `ctx.Done` and a send on a closed channel allow), and `*_walk_acts` that
the actions met on the way are the specification's action list. Together with `emit_iter_gen` / `unfold_iter_gen` this
closes the chain  Go text → regenerated loop body → per-iteration specification → network model. -/

/-- the action a control point stands for (`eLoop` arms `time.Sleep(frequency)`, which `eSleep` waits for) -/
def pcAct (P : Fn β ε) : Pc β ε → Option (Act (β ⊕ ε))
  | .eLoop _ => some (.sleep P.freq)
  | .eOffer _ v => some (.send 0 (.inl v) .sel)
  | .eCatch _ e => some (catchAct P.mode e)
  | .uOffer s => some (.send 0 (.inl s) .sel)
  | .uCatch _ e => some (catchAct P.mode e)
  | _ => none

/-- Emit: the successors of the control points of iteration `i` -/
theorem emit_walk (P : Fn β ε) (p : Src β ε) (i : Nat) :
    (∀ q ∈ procNext P { p with pc := .eLoop i }, q.pc = .eSleep i (p.now + P.freq)) ∧
    (∀ w, ∀ q ∈ procNext P { p with pc := .eSleep i w }, q.pc = .eApply i) ∧
    (∀ q ∈ procNext P { p with pc := .eApply i },
      q.pc = match P.emitF i with | .ok v => .eOffer i v | .error e => .eCatch i e) ∧
    (∀ v, ∀ q ∈ procNext P { p with pc := .eOffer i v },
      q.panicked = true ∨ q.pc = .eLoop (i + 1) ∨ (p.cancelled = true ∧ q.pc = .closeExx)) ∧
    (∀ e, ∀ q ∈ procNext P { p with pc := .eCatch i e },
      q.panicked = true ∨ q.pc = afterCatch P (.eCatch i e) ∨ (P.mode = .try_ ∧ p.cancelled = true ∧ q.pc = .closeExx)) := by
  refine ⟨?_, ?_, ?_, ?_, ?_⟩
  · intro q hq; simp [procNext] at hq; subst hq; rfl
  · intro w q hq
    simp only [procNext] at hq
    split at hq
    · simp at hq; subst hq; rfl
    · simp at hq
  · intro q hq
    simp only [procNext] at hq
    split at hq <;> (simp at hq; subst hq; simp [*])
  · intro v q hq
    simp only [procNext, sendOut, doneArm, List.mem_append] at hq
    rcases hq with hq | hq
    · split at hq
      · simp at hq; subst hq; exact Or.inl rfl
      · split at hq
        · simp at hq; subst hq; exact Or.inr (Or.inl rfl)
        · simp at hq
    · split at hq
      · simp at hq; subst hq; rename_i hc; exact Or.inr (Or.inr ⟨hc, rfl⟩)
      · simp at hq
  · intro e q hq
    simp only [procNext] at hq
    cases hm : P.mode <;> simp only [hm, sendExx, doneArm, List.mem_append] at hq
    · split at hq
      · simp at hq; subst hq; exact Or.inl rfl
      · split at hq
        · simp at hq; subst hq; exact Or.inr (Or.inl (by simp [afterCatch, hm]))
        · simp at hq
    · rcases hq with hq | hq
      · split at hq
        · simp at hq; subst hq; exact Or.inl rfl
        · split at hq
          · simp at hq; subst hq; exact Or.inr (Or.inl (by simp [afterCatch, hm]))
          · simp at hq
      · split at hq
        · simp at hq; subst hq; rename_i hc; exact Or.inr (Or.inr ⟨rfl, hc, rfl⟩)
        · simp at hq

/-- Emit: the actions along the control points of iteration `i` are `emitIter` -/
theorem emit_walk_acts (m : ErrMode) (freq : Nat) (f : Nat → β × Option ε) (u : β → β × Option ε) (i : Nat) :
    [pcAct (fnOfEmit m freq f u) (.eLoop i),
     pcAct (fnOfEmit m freq f u) (match (fnOfEmit m freq f u).emitF i with | .ok v => .eOffer i v | .error e => .eCatch i e)].filterMap id
      = (emitIter m freq f i).1 := by
  simp only [fnOfEmit, DSL.toExcept, emitIter]
  cases h : (f i).2 <;> simp [pcAct]

/-- Unfold: the successors of the control points of one iteration from `s` -/
theorem unfold_walk (P : Fn β ε) (p : Src β ε) (s : β) :
    (∀ q ∈ procNext P { p with pc := .uOffer s },
      q.panicked = true ∨ q.pc = .uApply s ∨ (p.cancelled = true ∧ q.pc = .closeExx)) ∧
    (∀ q ∈ procNext P { p with pc := .uApply s },
      q.pc = match (P.unfoldF s).2 with | none => .uOffer (P.unfoldF s).1 | some e => .uCatch (P.unfoldF s).1 e) ∧
    (∀ s' e, ∀ q ∈ procNext P { p with pc := .uCatch s' e },
      q.panicked = true ∨ q.pc = afterCatch P (.uCatch s' e) ∨ (P.mode = .try_ ∧ p.cancelled = true ∧ q.pc = .closeExx)) := by
  refine ⟨?_, ?_, ?_⟩
  · intro q hq
    simp only [procNext, sendOut, doneArm, List.mem_append] at hq
    rcases hq with hq | hq
    · split at hq
      · simp at hq; subst hq; exact Or.inl rfl
      · split at hq
        · simp at hq; subst hq; exact Or.inr (Or.inl rfl)
        · simp at hq
    · split at hq
      · simp at hq; subst hq; rename_i hc; exact Or.inr (Or.inr ⟨hc, rfl⟩)
      · simp at hq
  · intro q hq
    simp only [procNext] at hq
    split at hq <;> (simp at hq; subst hq; simp [*])
  · intro s' e q hq
    simp only [procNext] at hq
    cases hm : P.mode <;> simp only [hm, sendExx, doneArm, List.mem_append] at hq
    · split at hq
      · simp at hq; subst hq; exact Or.inl rfl
      · split at hq
        · simp at hq; subst hq; exact Or.inr (Or.inl (by simp [afterCatch, hm]))
        · simp at hq
    · rcases hq with hq | hq
      · split at hq
        · simp at hq; subst hq; exact Or.inl rfl
        · split at hq
          · simp at hq; subst hq; exact Or.inr (Or.inl (by simp [afterCatch, hm]))
          · simp at hq
      · split at hq
        · simp at hq; subst hq; rename_i hc; exact Or.inr (Or.inr ⟨rfl, hc, rfl⟩)
        · simp at hq

/-- Unfold: the actions along the control points of one iteration are `unfoldIter`, and so is the next seed -/
theorem unfold_walk_acts (m : ErrMode) (freq : Nat) (f : Nat → β × Option ε) (u : β → β × Option ε) (s : β) :
    ([pcAct (fnOfEmit m freq f u) (.uOffer s),
      pcAct (fnOfEmit m freq f u) (match (u s).2 with | none => .uApply (u s).1 | some e => .uCatch (u s).1 e)].filterMap id
      = (unfoldIter m u s).2.1) ∧ (unfoldIter m u s).1 = (u s).1 := by
  simp only [fnOfEmit, unfoldIter]
  cases h : (u s).2 <;> simp [pcAct]

end Golem.Props.C11

