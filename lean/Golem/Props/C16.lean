/-
C16 — duct builds the AST its combinators describe; visits are well-bracketed.

Property theorems only.  The model (`Golem.Model.Duct`: `Ast.append`, `Ast.unit`, the six
combinators, `Ast.apply`) mirrors /repo/duct/{ast,duct}.go and is the code the oracle driver
executes; the specification (`Golem.Model.DuctSpec`: the stack machine `Spec.run` with its
reification, `events`, `feed`, the checkers `Bracketed` and `DepthsOk`) is written independently.

A program is `From[A]` followed by any list of steps, each applied to the morphism produced by the
previous one (every intermediate morphism used once).  The tree-shape theorems hold for *every*
step list, typed or not (the Go type parameters only determine the recorded names), so they are
stated for all of them; `names_follow_types` is the statement that needs Go's typing and carries
the decidable hypothesis `WellTyped`.
-/
import Golem.Model.Duct
import Golem.Model.DuctSpec
import Golem.Lemmas.Duct
import Golem.Lemmas.DuctVisit

namespace Golem.Props.C16
open Golem.Model.Duct

/-- The tree built by any program — any length, any nesting — is the reification of the stack
machine run on the same steps: `Join`/`Yield` push their node onto the innermost open context,
`LiftF`/`WrapF` open a new context inside the innermost open one (`LiftF` with its `AstMap` as
first child), `Unit` closes the innermost open nested context. -/
theorem build_refines_stack (A : Ty) (steps : List Step) :
    build A steps = (Spec.run A steps).reify := by
  unfold build Spec.run
  rw [from_refines]
  exact (foldl_refines A steps (Spec.init A) (init_ok A)).1

/-- `Unit` when nothing but the root is open changes nothing: the code returns `true` from
`unit()` without clearing the root's `Deferred` (`if !f.Root { f.Deferred = false }`), so the root
stays `Deferred:true` and later steps keep landing in it. -/
theorem unit_on_root_is_noop (A B : Ty) (steps : List Step)
    (h : (Spec.run A steps).below = []) :
    build A (steps ++ [.unit B]) = build A steps
      ∧ build A steps = .aseq true true (Spec.run A steps).top := by
  have h1 : Spec.run A (steps ++ [.unit B]) = Spec.run A steps := by
    have : Spec.run A (steps ++ [.unit B]) = (Spec.run A steps).close := by
      simp [Spec.run, List.foldl_append, Spec.step]
    rw [this, Stack.close, h]
  constructor
  · rw [build_refines_stack, build_refines_stack, h1]
  · rw [build_refines_stack]; simp [Stack.reify, h, plug]

/-- `Unit` with a nested context open closes exactly the innermost one: it becomes a finished
`AstSeq{Root:false, Deferred:false}` child of the context that encloses it. -/
theorem unit_closes_innermost (A B : Ty) (steps : List Step) (p : List Ast) (rest : List (List Ast))
    (h : (Spec.run A steps).below = p :: rest) :
    build A (steps ++ [.unit B])
      = plug (p ++ [.aseq false false (Spec.run A steps).top]) rest := by
  have : Spec.run A (steps ++ [.unit B]) = (Spec.run A steps).close := by
    simp [Spec.run, List.foldl_append, Spec.step]
  rw [build_refines_stack, this, Stack.reify, Stack.close, h]

/-- Visiting the result of any program reports exactly one root morphism: the trace is
`OnEnterMorphism(0, root)`, the children's callbacks (none of which is a morphism callback),
`OnLeaveMorphism(0, root)`; the root has `Root:true, Deferred:true`. -/
theorem one_root (A : Ty) (steps : List Step) :
    ∃ cs, build A steps = .aseq true true cs ∧
      events 0 (build A steps) =
        ⟨.enterMorphism, 0, build A steps⟩ :: (eventsList 1 cs ++ [⟨.leaveMorphism, 0, build A steps⟩]) ∧
      ∀ e ∈ eventsList 1 cs, e.cb ≠ .enterMorphism ∧ e.cb ≠ .leaveMorphism := by
  have hok := run_ok A steps
  obtain ⟨cs, hcs, hnr⟩ := plug_root (Spec.run A steps).below (Spec.run A steps).top
    (fun a ha => (hok.1 a ha).2) (fun f hf a ha => (hok.2 f hf a ha).2)
  refine ⟨cs, ?_, ?_, eventsList_noRoot cs 1 hnr⟩
  · rw [build_refines_stack]; exact hcs
  · rw [build_refines_stack, Stack.reify, hcs]; simp [events]

/-- The non-Seq nodes of the result, in visiting order, are the `AstFrom` of `From[A]` followed by
the nodes the steps declare, in program order, each recording `TypeOf` of the type parameters of
the step that created it (`Join[A,B,C]`/`LiftF[A,B,C]`: `TypeA = TypeOf[B]`, `TypeB = TypeOf[C]`;
`Yield[A,B]`: `Type = TypeOf[B]`). -/
theorem names_recorded (A : Ty) (steps : List Step) :
    leaves (build A steps) = .afrom (typeName A) :: steps.filterMap Spec.leafOf := by
  rw [build_refines_stack, Stack.reify, leaves_plug]
  have key : ∀ (steps : List Step) (s : Stack),
      frameLeaves (steps.foldl Spec.step s).top (steps.foldl Spec.step s).below
        = frameLeaves s.top s.below ++ steps.filterMap Spec.leafOf := by
    intro steps
    induction steps with
    | nil => intro s; simp
    | cons st rest ih =>
      intro s
      rw [List.foldl_cons, ih]
      rcases s with ⟨top, below⟩
      cases st with
      | unit B =>
        cases below <;>
          simp [Spec.step, List.filterMap_cons, Spec.leafOf, Stack.close, frameLeaves, leavesList_append, leavesList, leaves]
      | _ =>
        simp [Spec.step, List.filterMap_cons, Spec.leafOf, Stack.push, Stack.opn, frameLeaves, leavesList_append,
          leavesList, leaves]
  rw [Spec.run, key]
  simp [Spec.init, frameLeaves, leavesList, leaves]

/-- In a program the Go type checker accepts, the recorded names are the names of the types that
flow through the chain: a `Join`/`LiftF` node records the element type it consumes (for `LiftF`
the element of the incoming slice type) and the type it produces, `Yield` the type it consumes. -/
theorem names_follow_types (A : Ty) (steps : List Step) (h : WellTyped A steps) :
    leaves (build A steps) = .afrom (typeName A) :: Spec.typedLeaves A steps := by
  rw [names_recorded]
  congr 1
  unfold WellTyped at h
  induction steps generalizing A with
  | nil => rfl
  | cons st rest ih =>
    simp only [typeOf] at h
    cases hst : st.type A with
    | none => simp [hst] at h
    | some t =>
      rw [hst] at h
      have ih' := ih t h
      cases st <;> simp only [Step.type] at hst <;> split at hst <;> simp at hst <;>
        subst hst <;> subst_vars <;>
        simp [List.filterMap_cons, Spec.leafOf, Spec.typedLeaves, Spec.elem, ih']

/-- Every enter callback is matched by its leave callback — same node kind, same depth, same
node — in stack order: the stack checker accepts the callback sequence of a visit of *any* tree at
any starting depth. -/
theorem trace_well_bracketed (code : Ast) (d : Nat) : Bracketed [] (events d code) := by
  have := bracketed_events code d [] []
  simp only [List.append_nil] at this
  exact this.2 (by simp [Bracketed])

/-- Children are visited one level deeper than their parent (and only morphism / Seq nodes have
children): the depth checker accepts the callback sequence of a visit of any tree. -/
theorem child_depth_succ (code : Ast) (d : Nat) : DepthsOk d [] (events d code) := by
  have := depthsOk_events d code d [] [] (by simp [EnterOk])
  simp only [List.append_nil] at this
  exact this.2 (by simp [DepthsOk])

/-- `Morphism.Apply` hands exactly the callback sequence `events 0 code` to the visitor — whatever
the visitor's state and error behaviour — one callback at a time, stopping at the first error. -/
theorem visit_feeds_events {σ ε : Type} (v : Visitor σ ε) (code : Ast) (s : σ) :
    Morphism.apply code v s = feed v (events 0 code) s :=
  apply_eq_feed v code 0 s

/-- An error from any callback stops the visit at once and is returned: if the callbacks before
`e` succeed and `e` fails with `err`, the visit returns `err` in the visitor state reached right
after `e` — no later callback runs.  If no callback fails the visit returns `nil`. -/
theorem error_stops_visit {σ ε : Type} (v : Visitor σ ε) (code : Ast) (s : σ) :
    (∀ (pre post : List Event) (e : Event) (s' s'' : σ) (err : ε),
        events 0 code = pre ++ e :: post → feed v pre s = (s', none) → v e s' = (s'', some err) →
        Morphism.apply code v s = (s'', some err))
    ∧ (∀ s', feed v (events 0 code) s = (s', none) → Morphism.apply code v s = (s', none)) := by
  constructor
  · intro pre post e s' s'' err hev hpre he
    rw [visit_feeds_events, hev, feed_append, hpre]
    simp [feed, he]
  · intro s' h; rw [visit_feeds_events, h]

/-- With the recording visitor that fails at callback index `k` the recorded trace is exactly the
first `k+1` callbacks of the non-failing trace and the visitor's error is returned; for `k` beyond
the trace the whole trace is recorded and no error is returned. -/
theorem error_stops_visit_at {ε : Type} (code : Ast) (k : Nat) (err : ε) :
    Morphism.apply code (failAt k err) (0, []) =
      ((min (k + 1) (events 0 code).length, (events 0 code).take (k + 1)),
        if k < (events 0 code).length then some err else none) := by
  rw [visit_feeds_events, feed_failAt k err _ 0 [] (Nat.zero_le k)]
  simp

/-- Put together for the programs of the property: the trace the never-failing recording visitor
records on the result of any program is the complete callback sequence, no error is returned, the
bracket checker and the depth checker (root at depth 0) accept it. -/
theorem recorded_trace_well_formed {ε : Type} (A : Ty) (steps : List Step) (k : Nat) (err : ε)
    (h : (events 0 (build A steps)).length ≤ k) :
    (Morphism.apply (build A steps) (failAt k err) (0, [])).2 = none ∧
    (Morphism.apply (build A steps) (failAt k err) (0, [])).1.2 = events 0 (build A steps) ∧
    Bracketed [] (Morphism.apply (build A steps) (failAt k err) (0, [])).1.2 ∧
    DepthsOk 0 [] (Morphism.apply (build A steps) (failAt k err) (0, [])).1.2 := by
  rw [error_stops_visit_at]
  have h1 : ¬ k < (events 0 (build A steps)).length := by omega
  have h2 : (events 0 (build A steps)).take (k + 1) = events 0 (build A steps) :=
    List.take_of_length_le (by omega)
  simp only [h1, if_false, h2, true_and]
  exact ⟨trace_well_bracketed _ 0, child_depth_succ _ 0⟩

/-! Non-vacuity: a typed program with two open contexts, Unit on a nested-in-nested context,
Unit on the root, and a step after Yield (Go accepts it: `Void` is an ordinary defined type). -/

private def T0 : Ty := .named "T0"
private def T1 : Ty := .named "T1"
private def prog : List Step :=
  [.join T0 (.slice (.slice T1)), .liftF (.slice T1) (.slice T0), .wrapF T0, .join T0 T1,
   .unit T1, .unit (.slice T1), .unit (.slice (.slice T1)), .yield (.slice (.slice (.slice T1))),
   .join Void T0]

example : WellTyped T0 prog := by decide

example : build T0 prog =
    .aseq true true [.afrom "T0", .amap "T0" "[][]T1",
      .aseq false false [.amap "[]T1" "[]T0", .aseq false false [.amap "T0" "T1"]],
      .ayield "[][][]T1", .amap "Void" "T0"] := by rfl

example : (Morphism.apply (build T0 prog) (failAt 3 "boom") (0, [])).2 = some "boom" := by
  rw [error_stops_visit_at]; rfl

example : (events 0 (build T0 prog)).length ≤ 18 := by decide

/-- counting consequence of the stack discipline: a callback sequence the stack checker accepts from a stack of `n`
pending nodes contains `n` more leave than enter callbacks -/
theorem bracketed_counts : ∀ (es stk : List Event), Bracketed stk es →
    (es.filter (·.cb.isEnter)).length + stk.length = (es.filter (fun e => !e.cb.isEnter)).length
  | [], stk, h => by simp [Bracketed] at h; simp [h]
  | e :: es, stk, h => by
    unfold Bracketed at h
    by_cases he : e.cb.isEnter = true
    · rw [if_pos he] at h
      have := bracketed_counts es (e :: stk) h
      simp [he] at this ⊢; omega
    · rw [if_neg he] at h
      cases stk with
      | nil => exact absurd h (by simp)
      | cons t stk' =>
        have := bracketed_counts es stk' h.2
        simp [he] at this ⊢; omega

/-- a complete visit of any tree makes as many leave callbacks as enter callbacks -/
theorem enters_eq_leaves (code : Ast) (d : Nat) :
    ((events d code).filter (·.cb.isEnter)).length = ((events d code).filter (fun e => !e.cb.isEnter)).length := by
  have := bracketed_counts (events d code) [] (trace_well_bracketed code d)
  simpa using this

end Golem.Props.C16
