/-
C05 — sequential pipe stages emit exactly the list image of their input, in order.

Part 1 (this section): the sequential meaning of every stage (`Stage.run`, the fold of the Go
loop body over the consumed list) is the corresponding list function — for all inputs.
Part 3 (Props/C05Gen.lean): the same statements over the definitions REGENERATED from pipe/pipe.go and
pipe/function.go on every run (go/xlate family `stages`): `*_gen` (Props/Stage/*.lean) prove the regenerated loop
bodies, deferred sends, capacities and close orders equal to the hand-written `Model/Stages`, `Model/StageCfg`;
`*_network_gen` restate the network theorems for the regenerated stage on the regenerated pool.
Part 2 (network section, below): in every reachable state of the one-worker pool, under every
schedule and every capacity, delivered ++ buffered is a prefix of that meaning of everything
sent, and equals it once the worker has left with its input closed (uses Golem.Lemmas.PoolInv).
-/
import Golem.Lemmas.StageSpec
import Golem.Lemmas.PoolInv
import Golem.Lemmas.PoolClosed
namespace Golem.Props.C05
open Golem.Go Golem.Go.Stage Golem.Model Golem.Lemmas

variable {α β ε : Type}

/-- Map: images, in order; nothing on the error channel -/
theorem map_spec (m : ErrMode) (f : α → Except ε β) (g : α → β) (hf : ∀ a, f a = .ok (g a)) (as : List α) :
    onCh 0 ((mapS m f).run () as).ems = as.map (fun a => Sum.inl (g a)) ∧
    onCh 1 ((mapS m f).run () as).ems = [] := StageSpec.map_out m f g hf as

/-- FMap: concatenation of the images -/
theorem flatMap_spec (m : ErrMode) (g : α → List β × Option ε) (hg : ∀ a, (g a).2 = none) (as : List α) :
    onCh 0 ((fmapS m g).run () as).ems = (as.flatMap fun a => (g a).1).map Sum.inl ∧
    onCh 1 ((fmapS m g).run () as).ems = [] := StageSpec.fmap_out m g hg as

theorem filter_spec (f : α → Except ε Bool) (p : α → Bool) (hf : ∀ a, f a = .ok (p a)) (as : List α) :
    onCh 0 ((filterS f).run () as).ems = as.filter p := StageSpec.filter_out f p hf as

theorem partition_spec (f : α → Except ε Bool) (p : α → Bool) (hf : ∀ a, f a = .ok (p a)) (as : List α) :
    onCh 0 ((partitionS f).run () as).ems = as.filter p ∧
    onCh 1 ((partitionS f).run () as).ems = as.filter (fun a => !p a) := StageSpec.partition_out f p hf as

theorem takeWhile_spec (f : α → Except ε Bool) (p : α → Bool) (hf : ∀ a, f a = .ok (p a)) (as : List α) :
    onCh 0 ((takeWhileS f).run () as).ems = as.takeWhile p := StageSpec.takeWhile_out f p hf as

/-- Take, n ≥ 1: the first n.  (For n ≤ 0 no worker is started and `out` is closed at once: `takePool`; network section.) -/
theorem take_spec (n : Nat) (hn : 1 ≤ n) (as : List α) :
    onCh 0 ((takeS (α := α)).run (n : Int) as).ems = as.take n := StageSpec.take_out n hn as

/-- Take, n ≥ 1, consumes no more than n: after n elements the body has returned -/
theorem take_consumes_at_most_n (n : Nat) (as : List α) (h : n + 1 ≤ as.length) :
    ((takeS (α := α)).run ((n : Int) + 1) (as.take (n + 1))).stopped = true := StageSpec.take_stops n as h

/-- Fold: nothing from the loop; on exit exactly the left fold from the monoid's empty element -/
theorem fold_spec (c : α → α → α) (e : α) (as : List α) :
    ((foldS c).run e as).ems = [] ∧ (foldS c).final ((foldS c).run e as).s = [(0, as.foldl c e)] :=
  StageSpec.fold_out c e as

/-- ForEach: one visit per element, in order -/
theorem forEach_spec (as : List α) :
    ((forEachS (α := α)).run [] as).s = as ∧ ((forEachS (α := α)).run [] as).ems = [] := StageSpec.forEach_visits as

theorem void_spec (as : List α) : ((voidS (α := α)).run () as).ems = [] := StageSpec.void_out as

/-- Seq then ToSeq is the identity (and Seq's channel has capacity and length `len xs`, closed) -/
theorem toSeq_seq (xs : List α) : toSeq (seqChan xs) = xs ∧ (seqChan xs).cap = xs.length ∧ (seqChan xs).closed = true := by
  refine ⟨?_, rfl, rfl⟩
  suffices ∀ (n : Nat) (ys acc : List α), ys.length ≤ n →
      toSeqLoop n ({ buf := ys, cap := xs.length, closed := true } : Chan α) acc = acc ++ ys by
    simpa [toSeq, seqChan] using this xs.length xs [] (Nat.le_refl _)
  intro n
  induction n with
  | zero => intro ys acc h; have : ys = [] := by cases ys <;> simp_all
            subst this; simp [toSeqLoop]
  | succ n ih =>
    intro ys acc h
    cases ys with
    | nil => simp [toSeqLoop]
    | cons y ys => simp only [toSeqLoop]; rw [ih ys (acc ++ [y]) (by simpa using h)]; simp

/-! non-vacuity -/
example : onCh 0 ((takeS (α := Nat)).run 2 [5, 6, 7]).ems = [5, 6] := by decide

end Golem.Props.C05

/-! ## Part 2 — the network: every schedule, every capacity

`pipePool s0 inCap outCap closes` is the one-goroutine network of a `pipe` stage; `Reachable`
ranges over every finite sequence of environment moves (send, close, receive, cancel) and
process moves, i.e. every interleaving, for arbitrary capacities. -/
namespace Golem.Props.C05
open Golem.Go Golem.Go.Stage Golem.Go.Pool Golem.Model

variable {σ α β γ ε : Type}

/-- Safety: in every reachable state — however producer, stage and consumers are interleaved —
what has been delivered on output `k` is a prefix of the list image of everything sent
(stages without exit-path sends: all but Fold). -/
theorem pipe_delivered_prefix (st : Stage σ α γ) (s0 : σ) (inCap : Nat) (outCap : Nat → Nat) (closes : List Nat)
    (hnd : closes.Nodup) (gated : Bool) (hf : ∀ s, st.final s = []) {p : Pool σ α γ}
    (hr : Reachable st (pipePool s0 inCap outCap closes gated) p) (k : Nat) :
    p.delivered k <+: onCh k (st.run s0 (p.sent 0)).ems :=
  single_delivered_prefix (inv_reachable st 1 _ s0 _ outCap closes gated hnd hr)
    (by have := reachable_nW hr; simpa [pipePool, Pool.init] using this) hf k

/-- Exactness: not cancelled, the input closed and the goroutine gone ⇒ delivered ++ still buffered
is *exactly* the list image of everything sent (plus the exit-path send of Fold), on every output. -/
theorem pipe_complete (st : Stage σ α γ) (s0 : σ) (inCap : Nat) (outCap : Nat → Nat) (closes : List Nat)
    (hnd : closes.Nodup) (gated : Bool) {p : Pool σ α γ}
    (hr : Reachable st (pipePool s0 inCap outCap closes gated) p)
    (hc : p.cancelled = false) (hx : Ctl.isExited (p.ws 0).ctl = true) (hcl : (p.ins 0).closed = true) (k : Nat) :
    p.delivered k ++ (p.outs k).buf
      = onCh k (st.run s0 (p.sent 0)).ems ++ (((st.final (st.run s0 (p.sent 0)).s).filter (·.1 == k)).map (·.2)) :=
  single_complete (inv_reachable st 1 _ s0 _ outCap closes gated hnd hr)
    (by have := reachable_nW hr; simpa [pipePool, Pool.init] using this) hc hx hcl k

/-- Liveness, deadlock-freedom half: input closed, nothing left for the consumers to receive, the stage
cannot move ⇒ the goroutine has exited and every output on its close list is closed. (That the stage
reaches such a state after finitely many of its own moves is `proc_terminates`.) -/
theorem pipe_closes (st : Stage σ α γ) (s0 : σ) (inCap : Nat) (outCap : Nat → Nat) (closes : List Nat)
    (hnd : closes.Nodup) {p : Pool σ α γ}
    (hr : Reachable st (pipePool s0 inCap outCap closes false) p)
    (hcl : (p.ins 0).closed = true) (hq : procNext st p = []) (hd : ∀ k, ¬ canRecv st p k)
    (hb : ¬ blockedPlain p 0) :
    Ctl.isExited (p.ws 0).ctl = true ∧ ∀ k ∈ closes, (p.outs k).closed = true := by
  have hn : p.nW = 1 := by have := reachable_nW hr; simpa [pipePool, Pool.init] using this
  have hg : p.gated = false := by have := reachable_gated hr; simpa [pipePool, Pool.init] using this
  have hI := inv_reachable st 1 _ s0 _ outCap closes false hnd hr
  have := quiescent_drained st hI hg (by intro i hi; have : i = 0 := by omega
                                         subst this; simpa using hcl) hq hd
    (by intro i hi; have : i = 0 := by omega
        subst this; exact hb)
  refine ⟨?_, all_closed_of_done (closedInv_reachable st 1 _ s0 _ outCap closes false hr) this.2⟩
  have hx := this.1
  simp only [allExited, hn, List.range_one, List.all_cons, List.all_nil, Bool.and_true] at hx
  exact hx

/-- between two environment moves a stage makes only finitely many moves, whatever the scheduler does -/
theorem pipe_moves_finite (st : Stage σ α γ) (s0 : σ) :
    WellFounded (fun (q p : Pool σ α γ) =>
      Inv st s0 (fun _ => 0) p ∧ (∀ i, i < p.nW → (p.ws i).inp < 1) ∧ q ∈ procNext st p) :=
  proc_terminates st s0 _ 1

/-! per-stage corollaries: network behaviour = list function -/

theorem map_network (m : ErrMode) (f : α → Except ε β) (g : α → β) (hf : ∀ a, f a = .ok (g a))
    (inCap : Nat) (outCap : Nat → Nat) {p : Pool Unit α (β ⊕ ε)}
    (hr : Reachable (mapS m f) (pipePool () inCap outCap [1, 0] false) p)
    (hc : p.cancelled = false) (hx : Ctl.isExited (p.ws 0).ctl = true) (hcl : (p.ins 0).closed = true) :
    p.delivered 0 ++ (p.outs 0).buf = (p.sent 0).map (fun a => Sum.inl (g a)) ∧
    p.delivered 1 ++ (p.outs 1).buf = [] := by
  have h0 := pipe_complete (mapS m f) () inCap outCap [1, 0] (by decide) false hr hc hx hcl 0
  have h1 := pipe_complete (mapS m f) () inCap outCap [1, 0] (by decide) false hr hc hx hcl 1
  simp only [(map_spec m f g hf _).1, (map_spec m f g hf _).2] at h0 h1
  simpa [mapS] using And.intro h0 h1

theorem flatMap_network (m : ErrMode) (g : α → List β × Option ε) (hg : ∀ a, (g a).2 = none)
    (inCap : Nat) (outCap : Nat → Nat) {p : Pool Unit α (β ⊕ ε)}
    (hr : Reachable (fmapS m g) (pipePool () inCap outCap [1, 0] false) p)
    (hc : p.cancelled = false) (hx : Ctl.isExited (p.ws 0).ctl = true) (hcl : (p.ins 0).closed = true) :
    p.delivered 0 ++ (p.outs 0).buf = ((p.sent 0).flatMap fun a => (g a).1).map Sum.inl := by
  have h0 := pipe_complete (fmapS m g) () inCap outCap [1, 0] (by decide) false hr hc hx hcl 0
  rw [(flatMap_spec m g hg _).1] at h0
  simpa [fmapS] using h0

theorem filter_network (f : α → Except ε Bool) (pr : α → Bool) (hf : ∀ a, f a = .ok (pr a))
    (inCap : Nat) (outCap : Nat → Nat) {p : Pool Unit α α}
    (hr : Reachable (filterS f) (pipePool () inCap outCap [0] false) p)
    (hc : p.cancelled = false) (hx : Ctl.isExited (p.ws 0).ctl = true) (hcl : (p.ins 0).closed = true) :
    p.delivered 0 ++ (p.outs 0).buf = (p.sent 0).filter pr := by
  have h0 := pipe_complete (filterS f) () inCap outCap [0] (by decide) false hr hc hx hcl 0
  rw [filter_spec f pr hf] at h0
  simpa [filterS] using h0

theorem partition_network (f : α → Except ε Bool) (pr : α → Bool) (hf : ∀ a, f a = .ok (pr a))
    (inCap : Nat) (outCap : Nat → Nat) {p : Pool Unit α α}
    (hr : Reachable (partitionS f) (pipePool () inCap outCap [0, 1] false) p)
    (hc : p.cancelled = false) (hx : Ctl.isExited (p.ws 0).ctl = true) (hcl : (p.ins 0).closed = true) :
    p.delivered 0 ++ (p.outs 0).buf = (p.sent 0).filter pr ∧
    p.delivered 1 ++ (p.outs 1).buf = (p.sent 0).filter (fun a => !pr a) := by
  have h0 := pipe_complete (partitionS f) () inCap outCap [0, 1] (by decide) false hr hc hx hcl 0
  have h1 := pipe_complete (partitionS f) () inCap outCap [0, 1] (by decide) false hr hc hx hcl 1
  simp only [(partition_spec f pr hf _).1, (partition_spec f pr hf _).2] at h0 h1
  simpa [partitionS] using And.intro h0 h1

theorem takeWhile_network (f : α → Except ε Bool) (pr : α → Bool) (hf : ∀ a, f a = .ok (pr a))
    (inCap : Nat) (outCap : Nat → Nat) {p : Pool Unit α α}
    (hr : Reachable (takeWhileS f) (pipePool () inCap outCap [0] false) p)
    (hc : p.cancelled = false) (hx : Ctl.isExited (p.ws 0).ctl = true) (hcl : (p.ins 0).closed = true) :
    p.delivered 0 ++ (p.outs 0).buf = (p.sent 0).takeWhile pr := by
  have h0 := pipe_complete (takeWhileS f) () inCap outCap [0] (by decide) false hr hc hx hcl 0
  rw [takeWhile_spec f pr hf] at h0
  simpa [takeWhileS] using h0

/-- Take, every n ≥ 0 (the repaired code): n ≥ 1 forwards the first n; n = 0 starts no goroutine and
delivers nothing in any reachable state -/
theorem take_network (n : Nat) (inCap : Nat) {p : Pool Int α α}
    (hr : Reachable (takeS (α := α)) (takePool (n : Int) inCap false) p)
    (hc : p.cancelled = false) (hx : 1 ≤ n → Ctl.isExited (p.ws 0).ctl = true) (hcl : (p.ins 0).closed = true) :
    p.delivered 0 ++ (p.outs 0).buf = (p.sent 0).take n := by
  cases n with
  | zero =>
    have hr' : Reachable (takeS (α := α)) (Pool.init 0 (fun _ => 0) (0 : Int) (fun _ => inCap) (fun k => ([inCap] : List Nat).getD k 0) [0] false) p := by
      simpa [takePool] using hr
    have hI := inv_reachable takeS 0 _ (0 : Int) _ _ [0] false (by decide) hr'
    have hn : p.nW = 0 := by have := reachable_nW hr'; simpa [Pool.init] using this
    have : p.emitted 0 = [] := by
      cases he : p.emitted 0 with
      | nil => rfl
      | cons x xs => have := hI.tagsOut 0 x (by simp [he]); omega
    have h2 := hI.fifoOut 0
    simp [this] at h2
    simp [h2]
  | succ m =>
    have hr' : Reachable (takeS (α := α)) (pipePool ((m + 1 : Nat) : Int) inCap (fun k => ([inCap] : List Nat).getD k 0) [0] false) p := by
      have hpos : ¬ (((m + 1 : Nat) : Int) ≤ 0) := by omega
      unfold takePool at hr
      rw [if_neg hpos] at hr
      exact hr
    have h0 := pipe_complete takeS _ inCap _ [0] (by decide) false hr' hc (hx (by omega)) hcl 0
    rw [take_spec (m + 1) (by omega)] at h0
    simpa [takeS] using h0

/-- Fold: exactly one value, the left fold from the monoid's empty element -/
theorem fold_network (c : α → α → α) (e : α) (inCap : Nat) (outCap : Nat → Nat) {p : Pool α α α}
    (hr : Reachable (foldS c) (pipePool e inCap outCap [0] false) p)
    (hc : p.cancelled = false) (hx : Ctl.isExited (p.ws 0).ctl = true) (hcl : (p.ins 0).closed = true) :
    p.delivered 0 ++ (p.outs 0).buf = [(p.sent 0).foldl c e] := by
  have h0 := pipe_complete (foldS c) e inCap outCap [0] (by decide) false hr hc hx hcl 0
  simpa [(fold_spec c e _).1, (fold_spec c e _).2] using h0

end Golem.Props.C05

