/-
C05 — sequential pipe stages emit exactly the list image of their input, in order.

Part 1 (this section): the sequential meaning of every stage (`Stage.run`, the fold of the Go
loop body over the consumed list) is the corresponding list function — for all inputs.
Part 2 (network section, below): in every reachable state of the one-worker pool, under every
schedule and every capacity, delivered ++ buffered is a prefix of that meaning of everything
sent, and equals it once the worker has left with its input closed (uses Golem.Lemmas.PoolInv).
-/
import Golem.Lemmas.StageSpec
namespace Golem.Props.C05
open Golem.Go Golem.Go.Stage Golem.Model Golem.Lemmas

variable {α β ε : Type}

/-- Map: images, in order; nothing on the error channel -/
theorem map_spec (m : ErrMode) (f : α → Except ε β) (g : α → β) (hf : ∀ a, f a = .ok (g a)) (as : List α) :
    onCh 0 ((mapS m f).run () as).ems = as.map (fun a => Sum.inl (g a)) ∧
    onCh 1 ((mapS m f).run () as).ems = [] := StageSpec.map_out m f g hf as

/-- FMap: concatenation of the images -/
theorem flatMap_spec (m : ErrMode) (g : α → List β × Option ε) (hg : ∀ a, (g a).2 = none) (as : List α) :
    onCh 0 ((fmapS m g).run () as).ems = (as.flatMap fun a => (g a).1).map Sum.inl ∧
    onCh 1 ((fmapS m g).run () as).ems = [] := StageSpec.fmap_out m g hg as

theorem filter_spec (f : α → Except ε Bool) (p : α → Bool) (hf : ∀ a, f a = .ok (p a)) (as : List α) :
    onCh 0 ((filterS f).run () as).ems = as.filter p := StageSpec.filter_out f p hf as

theorem partition_spec (f : α → Except ε Bool) (p : α → Bool) (hf : ∀ a, f a = .ok (p a)) (as : List α) :
    onCh 0 ((partitionS f).run () as).ems = as.filter p ∧
    onCh 1 ((partitionS f).run () as).ems = as.filter (fun a => !p a) := StageSpec.partition_out f p hf as

theorem takeWhile_spec (f : α → Except ε Bool) (p : α → Bool) (hf : ∀ a, f a = .ok (p a)) (as : List α) :
    onCh 0 ((takeWhileS f).run () as).ems = as.takeWhile p := StageSpec.takeWhile_out f p hf as

/-- Take, n ≥ 1: the first n.  (For n ≤ 0 no worker is started and `out` is closed at once: `takePool`; network section.) -/
theorem take_spec (n : Nat) (hn : 1 ≤ n) (as : List α) :
    onCh 0 ((takeS (α := α)).run (n : Int) as).ems = as.take n := StageSpec.take_out n hn as

/-- Take, n ≥ 1, consumes no more than n: after n elements the body has returned -/
theorem take_consumes_at_most_n (n : Nat) (as : List α) (h : n + 1 ≤ as.length) :
    ((takeS (α := α)).run ((n : Int) + 1) (as.take (n + 1))).stopped = true := StageSpec.take_stops n as h

/-- Fold: nothing from the loop; on exit exactly the left fold from the monoid's empty element -/
theorem fold_spec (c : α → α → α) (e : α) (as : List α) :
    ((foldS c).run e as).ems = [] ∧ (foldS c).final ((foldS c).run e as).s = [(0, as.foldl c e)] :=
  StageSpec.fold_out c e as

/-- ForEach: one visit per element, in order -/
theorem forEach_spec (as : List α) :
    ((forEachS (α := α)).run [] as).s = as ∧ ((forEachS (α := α)).run [] as).ems = [] := StageSpec.forEach_visits as

theorem void_spec (as : List α) : ((voidS (α := α)).run () as).ems = [] := StageSpec.void_out as

/-! non-vacuity -/
example : onCh 0 ((takeS (α := Nat)).run 2 [5, 6, 7]).ems = [5, 6] := by decide

end Golem.Props.C05
