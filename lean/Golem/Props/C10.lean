/-
C10 — fork.Fold equals the sequential fold for any commutative monoid.

Model: `Golem.Go.FF` (lean/Golem/Go/ForkFold.lean): `par` folding workers (the pool `forkPool` with
`foldS c`, local state = accumulator starting at `e`, exit path sends it on `vals`) + the collector.
Every `par ≥ 1`, every capacity, every schedule (= every distribution of elements over workers and
every arrival order of the partial results), every commutative monoid `(c, e)` whatever `e` is.

All six statements are proved as drafted (no statement changed); `pool_inv` is an added corollary.
Proof layout (`Golem/Lemmas/ForkFold.lean`): `step_pool` (FF moves project to pool moves or leave the
pool alone), the collector invariant `CInv` (`cinv_reachable`), frame facts of the pool once all workers
have exited, the per-worker contribution to `vals` (`contrib_*`, `vals_exited`, `vals_room`) and the
fold algebra (`foldl_op`, `foldl_flatten`, `foldl_perm`).  Observation: `forkfold_closes` does not need
`1 ≤ par` (hypothesis kept for uniformity with the draft).
-/
import Golem.Go.ForkFold
import Golem.Lemmas.PoolComplete
import Golem.Lemmas.ForkFold
namespace Golem.Props.C10
open Golem.Go Golem.Go.Stage Golem.Go.Pool Golem.Model Golem.Lemmas.ForkFold

variable {α : Type}

/-- commutative monoid laws, as explicit hypotheses -/
structure CommMonoid (c : α → α → α) (e : α) : Prop where
  assoc : ∀ x y z, c (c x y) z = c x (c y z)
  comm : ∀ x y, c x y = c y x
  id_left : ∀ x, c e x = x

/-- the pool component of a reachable fork.Fold state is a reachable pool state: all pool invariants apply -/
theorem pool_reachable (c : α → α → α) (e : α) (par inCap : Nat) (gated : Bool) {s : FF α}
    (hr : FF.Reachable c e par (FF.init e par inCap gated) s) :
    Pool.Reachable (foldS c) (forkPool e par inCap (fun _ => par) [] gated) s.pool := by
  induction hr with
  | init => exact .init
  | step _ hs ih =>
    rcases step_pool c e par hs with h | h
    · rw [h]; exact ih
    · exact .step ih h

/-- the pool invariant and configuration facts of a reachable fork.Fold state -/
theorem pool_inv (c : α → α → α) (e : α) (par inCap : Nat) (gated : Bool) {s : FF α}
    (hr : FF.Reachable c e par (FF.init e par inCap gated) s) :
    Inv (foldS c) e (fun _ => 0) s.pool ∧ s.pool.nW = par ∧ s.pool.gated = gated ∧ (s.pool.outs 0).cap = par := by
  have hp := pool_reachable c e par inCap gated hr
  refine ⟨inv_reachable (foldS c) par (fun _ => 0) e _ (fun _ => par) [] gated List.nodup_nil hp, ?_, ?_, ?_⟩
  · have := reachable_nW hp; simpa [forkPool, Pool.init] using this
  · have := reachable_gated hp; simpa [forkPool, Pool.init] using this
  · have := Golem.Go.Pool.reachable_outCap hp 0; simpa [forkPool, Pool.init] using this

/-- exactly one value, equal to the left fold of everything sent, once the collector has sent it
(uncancelled run) -/
theorem forkfold_eq (c : α → α → α) (e : α) (hm : CommMonoid c e) (par inCap : Nat) (gated : Bool) (hpar : 1 ≤ par)
    {s : FF α} (hr : FF.Reachable c e par (FF.init e par inCap gated) s) (hc : s.pool.cancelled = false)
    (hs : s.coll = .closeVals ∨ s.coll = .closeDone ∨ s.coll = .halted) :
    s.delivered ++ s.done.buf = [(s.pool.sent 0).foldl c e] := by
  obtain ⟨hI, hn, _, _⟩ := pool_inv c e par inCap gated hr
  have idr : ∀ x, c x e = x := fun x => by rw [hm.comm, hm.id_left]
  -- the collector invariant: all workers gone, `par` partial results read, their fold sent
  obtain ⟨b, hx, hlen, hval, _⟩ : ∃ b, Post c e par s b := by
    have hC := (cinv_reachable c e par inCap gated hr).2
    rcases hs with h | h | h <;> simp only [h] at hC <;> exact ⟨_, hC⟩
  rw [hval]
  congr 1
  -- what was read from `vals` is a permutation of the workers' accumulators
  have hlen2 := vals_length_exited c e hI hx
  have hbuf : (s.pool.outs 0).buf = [] := List.eq_nil_of_length_eq_zero (by omega)
  have hperm := vals_exited c e hI hx
  rw [hbuf, List.append_nil] at hperm
  -- the workers' consumed lists partition everything that was sent
  have hns : ∀ a x, ((foldS c).react a x).2.2 ≠ .stop := by intro a x; simp [foldS]
  have h0 := exited_eof hI hc hns 0 (allExited_worker hx 0 (by omega))
  have hf := hI.fifoIn 0
  simp only [h0.2, List.append_nil] at hf
  have hsent : (s.pool.sent 0).Perm ((List.range s.pool.nW).map fun i => (s.pool.ws i).hist).flatten := by
    rw [← hf, ← List.flatMap_def]
    have := hist_perm hI 0
    simpa using this
  rw [foldl_perm c hm.assoc hm.comm hperm, foldl_perm c hm.assoc hm.comm hsent,
    ← foldl_flatten c e hm.assoc hm.id_left idr, List.map_map]
  rfl

/-- never more than one value, and nothing before the collector has sent -/
theorem forkfold_at_most_one (c : α → α → α) (e : α) (par inCap : Nat) (gated : Bool)
    {s : FF α} (hr : FF.Reachable c e par (FF.init e par inCap gated) s) :
    (s.delivered ++ s.done.buf).length ≤ 1 := by
  have hC := (cinv_reachable c e par inCap gated hr).2
  cases hcoll : s.coll <;> simp only [hcoll, Pre, Post] at hC
  · simp [hC.2.1, hC.2.2.1]
  · simp [hC.2.2.2.1, hC.2.2.2.2.1]
  · simp [hC.2.2.2.1, hC.2.2.2.2.1]
  · simp [hC.2.2.1]
  · simp [hC.2.2.1]
  · simp [hC.2.2.1]

/-- the result channel is closed only after the value was sent, by the collector's last step -/
theorem forkfold_closed_after_value (c : α → α → α) (e : α) (par inCap : Nat) (gated : Bool)
    {s : FF α} (hr : FF.Reachable c e par (FF.init e par inCap gated) s) (hcl : s.done.closed = true) :
    s.coll = .halted ∧ (s.delivered ++ s.done.buf).length = 1 := by
  have hC := (cinv_reachable c e par inCap gated hr).2
  cases hcoll : s.coll <;> simp only [hcoll, Pre, Post, hcl] at hC
  · simp at hC
  · simp at hC
  · simp at hC
  · simp at hC
  · simp at hC
  · exact ⟨rfl, by simp [hC.2.2.1]⟩

/-- no panic; `vals` (capacity `par`) never blocks a worker: every worker sends exactly one partial result -/
theorem forkfold_no_panic (c : α → α → α) (e : α) (par inCap : Nat) (gated : Bool)
    {s : FF α} (hr : FF.Reachable c e par (FF.init e par inCap gated) s) : s.pool.panicked = false :=
  (pool_inv c e par inCap gated hr).1.noPanic

set_option linter.unusedVariables false in -- `hpar` is not needed (with `par = 0` the collector runs straight through)
/-- it terminates: input closed, no gate, nothing more fork.Fold can do by itself ⇒ the collector has
halted and the result channel is closed (so with `forkfold_eq`: delivered ++ buffered = [fold]) -/
theorem forkfold_closes (c : α → α → α) (e : α) (par inCap : Nat) (hpar : 1 ≤ par)
    {s : FF α} (hr : FF.Reachable c e par (FF.init e par inCap false) s)
    (hcl : (s.pool.ins 0).closed = true) (hq : FF.procNext c e par s = []) :
    s.coll = .halted ∧ s.done.closed = true := by
  obtain ⟨hI, hn, hg, hcap⟩ := pool_inv c e par inCap false hr
  obtain ⟨hcap1, hC⟩ := cinv_reachable c e par inCap false hr
  unfold FF.procNext at hq
  rw [List.append_eq_nil_iff, List.map_eq_nil_iff] at hq
  obtain ⟨hpq, hcq⟩ := hq
  obtain ⟨hw, _⟩ := procNext_nil hpq
  -- every worker has exited: the loop never sends, and the single exit-path send finds room on `vals`
  have hx : s.pool.allExited = true := by
    rw [allExited_iff]
    intro i hi
    refine stuck_exited hI hg (i := i) hcl (hw i hi) ?_ ?_
    · intro a x rest aft hctl _ _ _
      exact not_busy_pending c e hI i hctl
    · intro a k v rest why hctl _ hfull
      obtain ⟨rfl, h0⟩ := contrib_exiting c e hI i hctl
      have := vals_room c e hI hi h0
      omega
  have hlen := vals_length_exited c e hI hx
  -- so the collector is not stuck before `halted`
  unfold FF.collNext at hcq
  cases hcoll : s.coll with
  | waiting => simp [hcoll, hx] at hcq
  | reading n acc =>
    cases n with
    | zero => simp [hcoll] at hcq
    | succ n =>
      simp only [hcoll] at hC hcq
      cases hb : (s.pool.outs 0).buf with
      | nil => rw [hb] at hlen; have := hC.2.2.1; simp at hlen; omega
      | cons v rest => simp [envNext, hb] at hcq
  | sending acc =>
    simp only [hcoll, Pre] at hC hcq
    simp [hC.2.2.2.2.1, hcap1] at hcq
  | closeVals => simp [hcoll] at hcq
  | closeDone => simp [hcoll] at hcq
  | halted =>
    simp only [hcoll, Post] at hC
    exact ⟨rfl, hC.2.2.2⟩

/-- The result does not depend on the degree of parallelism, the input capacity, the gate, the schedule, or the order in
which the elements were offered: two completed uncancelled runs — any two configurations, any two interleavings — whose
inputs are permutations of each other hand the consumer the same single value. -/
theorem forkfold_independent (c : α → α → α) (e : α) (hm : CommMonoid c e)
    (par inCap par' inCap' : Nat) (gated gated' : Bool) (hpar : 1 ≤ par) (hpar' : 1 ≤ par')
    {s s' : FF α} (hr : FF.Reachable c e par (FF.init e par inCap gated) s)
    (hr' : FF.Reachable c e par' (FF.init e par' inCap' gated') s')
    (hc : s.pool.cancelled = false) (hc' : s'.pool.cancelled = false)
    (hs : s.coll = .closeVals ∨ s.coll = .closeDone ∨ s.coll = .halted)
    (hs' : s'.coll = .closeVals ∨ s'.coll = .closeDone ∨ s'.coll = .halted)
    (hp : (s.pool.sent 0).Perm (s'.pool.sent 0)) :
    s.delivered ++ s.done.buf = s'.delivered ++ s'.done.buf := by
  rw [forkfold_eq c e hm par inCap gated hpar hr hc hs, forkfold_eq c e hm par' inCap' gated' hpar' hr' hc' hs']
  congr 1
  refine hp.foldl_eq' ?_ e
  intro x _ y _ z
  rw [hm.assoc, hm.assoc, hm.comm x y]

end Golem.Props.C10
