/-
C06, translation tie — every consumer stage of pipe/pipe.go (and `Join`) as REGENERATED from the source
on this run (go/xlate family `stages`) is one of the pools the theorems of Props/C06 quantify over:
its loop body / deferred sends equal the hand-written `Stage` (`Stage.*.stage_gen`), its `make`s, `go`
statements and `close`s equal the hand-written configuration (`Stage.*.cfg_gen`), every close list is
duplicate-free (`gen_closes_nodup`, the hypothesis of the no-panic / closure theorems), and the generic
theorems are restated for pools built from a configuration (`cfg_pool_*`).
-/
import Golem.Props.C06
import Golem.Props.Stage.PipeCatch
import Golem.Props.Stage.PipeMap
import Golem.Props.Stage.PipeFMap
import Golem.Props.Stage.PipeFilter
import Golem.Props.Stage.PipePartition
import Golem.Props.Stage.PipeTakeWhile
import Golem.Props.Stage.PipeTake
import Golem.Props.Stage.PipeFold
import Golem.Props.Stage.PipeForEach
import Golem.Props.Stage.PipeVoid
import Golem.Props.Stage.PipeJoin
import Golem.Props.Stage.PipeSources
namespace Golem.Props.C06
open Golem.Go Golem.Go.Stage Golem.Go.Pool Golem.Model Golem.Model.DSL Golem.Props.Stage

variable {σ α β ε : Type}

/-- no output is closed twice by the regenerated stages: each close list is duplicate-free -/
theorem gen_closes_nodup :
    Gen.Pipe.Map.cfg.closes.Nodup ∧ Gen.Pipe.FMap.cfg.closes.Nodup ∧ Gen.Pipe.Filter.cfg.closes.Nodup ∧
    Gen.Pipe.Partition.cfg.closes.Nodup ∧ Gen.Pipe.TakeWhile.cfg.closes.Nodup ∧ Gen.Pipe.Take.cfg.closes.Nodup ∧
    Gen.Pipe.Fold.cfg.closes.Nodup ∧ Gen.Pipe.ForEach.cfg.closes.Nodup ∧ Gen.Pipe.Void.cfg.closes.Nodup ∧
    Gen.Pipe.Join.cfg.closes.Nodup := by decide

/-- every regenerated stage closes every channel it returns -/
theorem gen_closes_all :
    Gen.Pipe.Map.cfg.closes.length = 2 ∧ Gen.Pipe.FMap.cfg.closes.length = 2 ∧ Gen.Pipe.Filter.cfg.closes = [0] ∧
    Gen.Pipe.Partition.cfg.closes.length = 2 ∧ Gen.Pipe.TakeWhile.cfg.closes = [0] ∧ Gen.Pipe.Take.cfg.closes = [0] ∧
    Gen.Pipe.Fold.cfg.closes = [0] ∧ Gen.Pipe.ForEach.cfg.closes = [0] ∧ Gen.Pipe.Void.cfg.closes = [0] ∧
    Gen.Pipe.Join.cfg.closes = [0] := by decide

/-- the generic theorems, for a pool built from a stage configuration -/
theorem cfg_pool_no_panic (c : Cfg) (hnd : c.closes.Nodup) (st : Stage σ α β) (s0 : σ) (inCap : Nat → Nat) (par nIn : Nat)
    (errch : Nat → Nat) (gated : Bool) {p : Pool σ α β} (hr : Reachable st (c.pool s0 inCap par nIn errch gated) p) :
    p.panicked = false :=
  pool_no_panic st _ _ s0 inCap _ c.closes gated hnd hr

theorem cfg_pool_close_after_workers (c : Cfg) (hnd : c.closes.Nodup) (st : Stage σ α β) (s0 : σ) (inCap : Nat → Nat) (par nIn : Nat)
    (errch : Nat → Nat) (gated : Bool) {p : Pool σ α β} (hr : Reachable st (c.pool s0 inCap par nIn errch gated) p) (k : Nat)
    (hk : (p.outs k).closed = true) : p.allExited = true :=
  pool_close_after_workers st _ _ s0 inCap _ c.closes gated hnd hr k hk

theorem cfg_pool_cancel_terminates (c : Cfg) (hnd : c.closes.Nodup) (st : Stage σ α β) (s0 : σ) (inCap : Nat → Nat) (par nIn : Nat)
    (errch : Nat → Nat) {p : Pool σ α β} (hr : Reachable st (c.pool s0 inCap par nIn errch false) p)
    (hc : p.cancelled = true) (hcl : ∀ i, i < c.nW par nIn → (p.ins (c.inp i)).closed = true)
    (hq : procNext st p = []) (hb : ∀ i, i < c.nW par nIn → ¬ blockedPlain p i) :
    p.allExited = true ∧ ∀ k ∈ c.closes, (p.outs k).closed = true :=
  pool_cancel_terminates st _ _ s0 inCap _ c.closes hnd hr hc hcl hq hb

theorem cfg_pool_closes (c : Cfg) (hnd : c.closes.Nodup) (st : Stage σ α β) (s0 : σ) (inCap : Nat → Nat) (par nIn : Nat)
    (errch : Nat → Nat) {p : Pool σ α β} (hr : Reachable st (c.pool s0 inCap par nIn errch false) p)
    (hcl : ∀ i, i < c.nW par nIn → (p.ins (c.inp i)).closed = true)
    (hq : procNext st p = []) (hd : ∀ k, ¬ canRecv st p k) (hb : ∀ i, i < c.nW par nIn → ¬ blockedPlain p i) :
    p.allExited = true ∧ ∀ k ∈ c.closes, (p.outs k).closed = true :=
  pool_closes st _ _ s0 inCap _ c.closes hnd hr hcl hq hd hb

/-- the regenerated `Map` under `Lift` is never stuck on its plain error send (capacity 1 from the regenerated `errch`) -/
theorem lift_never_blockedPlain_gen (f : α → β × Option ε) (inCap : Nat) (gated : Bool) {p : Pool Unit α (β ⊕ ε)}
    (hr : Reachable (mkStage (Gen.Pipe.Map.body f (PipeCatch.catchOf .lift)) Gen.Pipe.Map.final)
            (Gen.Pipe.Map.cfg.pool Gen.Pipe.Map.init (fun _ => inCap) 0 0 (PipeCatch.errchOf .lift) gated) p) :
    ¬ blockedPlain p 0 := by
  rw [PipeMap.stage_gen, PipeMap.cfg_gen, Cfg.pool_one _ rfl] at hr
  exact lift_never_blockedPlain (toExcept f) inCap _ (by simp [StageCfg.pipeMap, PipeCatch.errchOf, Gen.Pipe.pure_errch]) gated hr

/-- the regenerated `Fold` is never stuck on its deferred send (capacity 1) -/
theorem fold_never_blockedPlain_gen (c : α → α → α) (e : α) (inCap : Nat) (errch : Nat → Nat) (gated : Bool) {p : Pool α α α}
    (hr : Reachable (mkStage (Gen.Pipe.Fold.body c) Gen.Pipe.Fold.final)
            (Gen.Pipe.Fold.cfg.pool (Gen.Pipe.Fold.init e) (fun _ => inCap) 0 0 errch gated) p) :
    ¬ blockedPlain p 0 := by
  rw [PipeFold.stage_gen, PipeFold.cfg_gen, Cfg.pool_one _ rfl] at hr
  exact fold_never_blockedPlain c e inCap _ (by simp [StageCfg.pipeFold]) gated hr

/-- Emit, Unfold and Throttling as regenerated: every channel the function creates is closed by exactly one of its
goroutines, on that goroutine's exit path (`defer close`) -/
theorem gen_sources_close_every_channel :
    Gen.PipeSrc.Emit.cfg.closes.flatten = [1, 0] ∧ Gen.PipeSrc.Unfold.cfg.closes.flatten = [1, 0] ∧
    Gen.PipeSrc.Throttling.cfg.closes.flatten = [1, 0] := by decide

end Golem.Props.C06
