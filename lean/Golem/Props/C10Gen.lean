/-
C10, translation tie — `fork.Fold` as REGENERATED from pipe/fork/fork.go on this run: the folding workers are
`foldS` started from `m.Empty()` and hand their partial result to `vals` (capacity `par`); the collector starts
from `m.Empty()`, combines exactly `par` partial results, sends on `done` (capacity 1) and closes both.
`Go/ForkFold.lean` (which Props/C10 is about) is this network with `vals` as output 0 of the pool component.
-/
import Golem.Props.C10
import Golem.Props.Stage.ForkFold
namespace Golem.Props.C10
open Golem.Go Golem.Go.Stage Golem.Go.Pool Golem.Model Golem.Model.DSL Golem.Props.Stage

variable {α : Type}

/-- `vals` has room for every worker's partial result, `done` for the single value: neither deferred send nor the
collector's send can block forever -/
theorem gen_forkfold_caps (inCap par nIn : Nat) (errch : Nat → Nat) :
    Gen.Fork.Fold.cfg.caps inCap par nIn errch = [1, par] := rfl

/-- the regenerated workers are the pool component of `Go/ForkFold.FF.init` up to the channel numbering -/
theorem gen_forkfold_workers (c : α → α → α) (e : α) :
    (mkStage (Gen.Fork.Fold.body c) Gen.Fork.Fold.final).react = (foldS c).react ∧
    Gen.Fork.Fold.init e = e ∧
    (∀ acc, Gen.Fork.Fold.final acc = ((foldS c).final acc).map fun kv => (kv.1 + 1, kv.2)) ∧
    Gen.Fork.Fold.cfg.workers = .par := by
  refine ⟨?_, rfl, fun _ => rfl, rfl⟩
  rw [ForkFold.stage_gen]

end Golem.Props.C10
