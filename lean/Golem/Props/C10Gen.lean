/-
C10, translation tie — `fork.Fold` as REGENERATED from pipe/fork/fork.go on this run: the folding workers are
`foldS` started from `m.Empty()` and hand their partial result to `vals` (capacity `par`); the collector starts
from `m.Empty()`, combines exactly `par` partial results, sends on `done` (capacity 1) and closes both.
`Go/ForkFold.lean` (which Props/C10 is about) is this network with `vals` as output 0 of the pool component.
-/
import Golem.Props.C10
import Golem.Props.Stage.ForkFold
namespace Golem.Props.C10
open Golem.Go Golem.Go.Stage Golem.Go.Pool Golem.Model Golem.Model.DSL Golem.Props.Stage Golem.Lemmas.ForkFold

variable {α : Type}

/-- `vals` has room for every worker's partial result, `done` for the single value: neither deferred send nor the
collector's send can block forever -/
theorem gen_forkfold_caps (inCap par nIn : Nat) (errch : Nat → Nat) :
    Gen.Fork.Fold.cfg.caps inCap par nIn errch = [1, par] := rfl

/-- the regenerated workers are the pool component of `Go/ForkFold.FF.init` up to the channel numbering -/
theorem gen_forkfold_workers (c : α → α → α) (e : α) :
    (mkStage (Gen.Fork.Fold.body c) Gen.Fork.Fold.final).react = (foldS c).react ∧
    Gen.Fork.Fold.init e = e ∧
    (∀ acc, Gen.Fork.Fold.final acc = ((foldS c).final acc).map fun kv => (kv.1 + 1, kv.2)) ∧
    Gen.Fork.Fold.cfg.workers = .par := by
  refine ⟨?_, rfl, fun _ => rfl, rfl⟩
  rw [ForkFold.stage_gen]

/-- The collector as REGENERATED, run on what the network hands it. In every reachable state of `Go/ForkFold` in which
the collector is still waiting and all workers have exited (the moment `wg.Wait()` returns), `vals` holds exactly `par`
partial results; the regenerated collector program then sends their left fold from `m.Empty()` on `done` exactly once,
closes `done` and `vals` and leaves `vals` empty — what `Go/ForkFold.collNext` does from that state (`cinv_coll`). -/
theorem gen_collector_at_wait (c : α → α → α) (e : α) (par inCap : Nat) (gated : Bool) {s : FF α}
    (hr : FF.Reachable c e par (FF.init e par inCap gated) s) (hw : s.coll = .waiting) (hx : s.pool.allExited = true) :
    (collRun c e par 1 0 Gen.Fork.Fold.collector { vals := (s.pool.outs 0).buf }).map CollSt.obs =
      some ([(s.pool.outs 0).buf.foldl c e], true, true, []) := by
  obtain ⟨hinv, hn, _, _⟩ := pool_inv c e par inCap gated hr
  have hc := cinv_reachable c e par inCap gated hr
  have hlen := vals_length_exited c e hinv hx
  have hd : s.pool.delivered 0 = [] := by
    have := hc.2
    rw [hw] at this
    exact this.1
  rw [hd, hn] at hlen
  exact ForkFold.collector_gen c e par _ (by simpa using hlen)

end Golem.Props.C10
