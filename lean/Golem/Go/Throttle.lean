/-
Go-semantics kernel, timed part: the two-goroutine network of `pipe.Throttling` (pipe/pipe.go)

    out := make(chan A, cap(in));  ctl := make(chan struct{}, ops)

    go func() {                                   -- the PACER
        defer close(ctl)                          --   PC.closing → PC.exited
        for {
            for i := 0; i < ops; i++ {            --   PC.push i        (loop test `i < ops`)
                select { case ctl <- struct{}{}:  --     push a token, i++
                         case <-ctx.Done(): return }
            }
            select { case <-time.After(interval): --   PC.wait due      (due = time of arming + interval)
                     case <-ctx.Done(): return }
        }
    }()
    go func() {                                   -- the DATA goroutine
        defer close(out)                          --   DC.closing → DC.exited
        for a = range in {                        --   DC.idle
            select { case <-ctl:                  --   DC.gate a        (a closed `ctl` is always ready)
                     case <-ctx.Done(): return }
            select { case out <- a:               --   DC.fwd a
                     case <-ctx.Done(): return }
        }
    }()

Virtual clock `now`; `time.After` is a pending timer with a due time that may fire at OR AFTER
its due time (`Step` lets time pass arbitrarily: late timers are allowed, so lower bounds proved
for `Reachable` hold for every schedule and every timer latency).  The lock-step driver's
`t<d>` move is the punctual special case, composed of these very steps: `tick` to the next due
time inside the window, process moves to quiescence, …, `tick` to the end of the window.

`select` with several ready arms: every ready arm is a successor.

History variables: `sent`, `taken`, `delivered`, and the time stamps
  `P` (n-th token pushed into ctl), `C` (n-th element passed the gate), `D` (n-th element delivered).

Everything is executable: the oracle driver (`Golem/Driver/Throttle.lean`) runs exactly these
successor functions.  Core Lean only.
-/
import Golem.Go.Pool
namespace Golem.Go.Throttle
open Golem.Go

/-- control points of the pacer -/
inductive PC where
  | push (i : Nat)
  | wait (due : Nat)
  | closing
  | exited
  deriving DecidableEq, Repr

/-- control points of the data goroutine -/
inductive DC (α : Type) where
  | idle
  | gate (a : α)
  | fwd (a : α)
  | closing (why : Why)
  | exited (why : Why)

structure Net (α : Type) where
  ops : Nat
  interval : Nat
  inp : Chan α
  out : Chan α
  ctl : Chan Unit
  pc : PC := .push 0
  dc : DC α := .idle
  cancelled : Bool := false
  panicked : Bool := false
  now : Nat := 0
  -- history variables
  sent : List α := []
  taken : List α := []
  delivered : List α := []
  P : List Nat := []
  C : List Nat := []
  D : List Nat := []

variable {α : Type}

/-- `Throttling(ctx, in, ops, interval)` with `cap(in) = c` at virtual time 0 -/
def init (ops interval c : Nat) : Net α :=
  { ops := ops, interval := interval,
    inp := { cap := c }, out := { cap := c }, ctl := { cap := ops } }

/-- moves of the pacer goroutine -/
def pacerNext (p : Net α) : List (Net α) :=
  match p.pc with
  | .push i =>
    if i < p.ops then
      (if p.ctl.closed then [{ p with panicked := true }]
       else if p.ctl.buf.length < p.ctl.cap then
         [{ p with ctl := { p.ctl with buf := p.ctl.buf ++ [()] }, P := p.P ++ [p.now], pc := .push (i + 1) }]
       else [])
      ++ (if p.cancelled then [{ p with pc := .closing }] else [])
    else
      -- `time.After(interval)` is evaluated when the select is entered
      [{ p with pc := .wait (p.now + p.interval) }]
  | .wait due =>
    (if due ≤ p.now then [{ p with pc := .push 0 }] else [])
    ++ (if p.cancelled then [{ p with pc := .closing }] else [])
  | .closing =>
    if p.ctl.closed then [{ p with panicked := true }]
    else [{ p with ctl := { p.ctl with closed := true }, pc := .exited }]
  | .exited => []

/-- moves of the data goroutine -/
def dataNext (p : Net α) : List (Net α) :=
  match p.dc with
  | .idle =>
    match p.inp.buf with
    | a :: rest => [{ p with inp := { p.inp with buf := rest }, taken := p.taken ++ [a], dc := .gate a }]
    | [] => if p.inp.closed then [{ p with dc := .closing .eof }] else []
  | .gate a =>
    (match p.ctl.buf with
     | _ :: rest => [{ p with ctl := { p.ctl with buf := rest }, C := p.C ++ [p.now], dc := .fwd a }]
     | [] => if p.ctl.closed then [{ p with C := p.C ++ [p.now], dc := .fwd a }] else [])
    ++ (if p.cancelled then [{ p with dc := .closing .done }] else [])
  | .fwd a =>
    (if p.out.closed then [{ p with panicked := true }]
     else if p.out.buf.length < p.out.cap then
       [{ p with out := { p.out with buf := p.out.buf ++ [a] }, dc := .idle }]
     else [])
    ++ (if p.cancelled then [{ p with dc := .closing .done }] else [])
  | .closing w =>
    if p.out.closed then [{ p with panicked := true }]
    else [{ p with out := { p.out with closed := true }, dc := .exited w }]
  | .exited _ => []

/-- all process moves (a panicked program has none) -/
def procNext (p : Net α) : List (Net α) :=
  if p.panicked then [] else pacerNext p ++ dataNext p

/-- environment moves -/
inductive Move (α : Type) where
  | send (v : α)
  | close
  | recv
  | cancel
  | tick (d : Nat)

def idleN (p : Net α) : Nat := match p.dc with | .idle => 1 | _ => 0

/-- successors under an environment move, each with what the environment observes; a
non-blocking attempt that cannot proceed leaves the state unchanged.  Unbuffered hand-off as in
`Pool`: a send succeeds when the data goroutine is parked at `range in`; a receive on an empty
`out` takes the value directly from the data goroutine blocked in `out <- a`. -/
def envNext (p : Net α) : Move α → List (Net α × Pool.Obs α)
  | .send v =>
    if p.inp.closed then [(p, .nope)]
    else if p.inp.buf.length < p.inp.cap + idleN p then
      [({ p with inp := { p.inp with buf := p.inp.buf ++ [v] }, sent := p.sent ++ [v] }, .ok)]
    else [(p, .full)]
  | .close =>
    if p.inp.closed then [(p, .nope)]
    else [({ p with inp := { p.inp with closed := true } }, .ok)]
  | .recv =>
    match p.out.buf with
    | v :: rest =>
      [({ p with out := { p.out with buf := rest }, delivered := p.delivered ++ [v], D := p.D ++ [p.now] }, .value v)]
    | [] =>
      if p.out.closed then [(p, .closed)]
      else match p.dc with
        | .fwd a => [({ p with dc := .idle, delivered := p.delivered ++ [a], D := p.D ++ [p.now] }, .value a)]
        | _ => [(p, .empty)]
  | .cancel => [({ p with cancelled := true }, .ok)]
  | .tick d => [({ p with now := p.now + d }, .ok)]

/-- one step of the network: a process move or an environment move (time passes by `tick`,
unconstrained: a due timer need not fire at once) -/
def Step (p q : Net α) : Prop :=
  q ∈ procNext p ∨ ∃ m o, (q, o) ∈ envNext p m

inductive Reachable (p0 : Net α) : Net α → Prop
  | init : Reachable p0 p0
  | step {p q} : Reachable p0 p → Step p q → Reachable p0 q

/-- runs of process moves only (no environment move, no time passing) -/
inductive ProcStar : Net α → Net α → Prop
  | refl (p) : ProcStar p p
  | step {p q r} : ProcStar p q → r ∈ procNext q → ProcStar p r

/-- `n`-th time stamp of a history -/
abbrev at? (l : List Nat) (n : Nat) : Option Nat := l[n]?

/-! ### eager semantics (used for the exactness theorem): no cancel, no close, time passes only
when nothing else can move — no process move, no receive possible, the data goroutine is not
starving for input — and never beyond the due time of the pending timer -/

def canTick (p : Net α) (d : Nat) : Prop :=
  procNext p = [] ∧ p.out.buf = [] ∧ (∀ a, p.dc ≠ .fwd a) ∧ (p.dc = .idle → p.inp.buf ≠ []) ∧
  (∀ due, p.pc = .wait due → p.now + d ≤ due)

def EStep (p q : Net α) : Prop :=
  q ∈ procNext p ∨ (∃ v o, (q, o) ∈ envNext p (.send v)) ∨ (∃ o, (q, o) ∈ envNext p .recv) ∨
  (∃ d, canTick p d ∧ q = { p with now := p.now + d })

inductive EReachable (p0 : Net α) : Net α → Prop
  | init : EReachable p0 p0
  | step {p q} : EReachable p0 p → EStep p q → EReachable p0 q

end Golem.Go.Throttle
