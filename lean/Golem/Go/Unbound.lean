/-
Go-semantics kernel, part 2: the pump goroutine of `pipe.New` (pipe/unbound.go) as a network
of one process and two channels.

    eg := make(chan T, cap); in := make(chan T, cap); mq := newq[T]()
    go func() {
        defer close(eg)                                   -- closeEg, exited
        flush := func() { for mq.head != nil { eg <- head(mq); deq(mq) } }
                                                          -- flush (loop test + blocking send), flushSent (deq)
        for {
            select {                                      -- main   (every ready arm is a successor)
            case <-ctx.Done():
                for {
                    select {                              -- drain  (non-blocking: `default` iff `in` empty and open)
                    case x, ok := <-in:
                        if !ok { flush(); return }
                        enq(&x, mq); continue             -- drainGot x
                    default:
                    }
                    break
                }
                close(in)                                 -- closeIn
                for x := range in { enq(&x, mq) }         -- range, rangeGot x
                flush(); return
            case x, ok := <-in:
                if !ok { flush(); return }
                enq(&x, mq)                               -- mainGot x
            case emit(eg, mq) <- head(mq):                -- enabled iff mq.head != nil (nil-channel trick)
                deq(mq)                                   -- mainSent
            }
        }
    }()

The backlog `mq` is the ABSTRACT list of queued values; `Golem.Model.Queue` models queue.go at
pointer level and `queue_refines_fifo` (Props/C08) shows that `enq`/`deq`/`head`/`emit` on the
linked structure are `++ [x]` / `tail` / `head?` / `≠ []` on that list for every history and
every `sync.Pool` behaviour.

Channel conventions are those of `Golem.Go.Pool`: a send needs room in the buffer; a sender may
also hand a value to the pump while the pump is at a receive point of `in` and the buffer is
empty ("virtual slot": the value is appended and the pump's receive, which stays enabled, takes
it); a receiver may take a value directly from the pump while the pump is blocked in a send on
`eg` and the buffer is empty.  A send on a channel the pump has closed panics the SENDER and a
second close of `in` by the sender panics the sender: both are the environment's own crash and
are modelled as refused moves (`nope`).  A panic of the pump itself (close of a closed channel,
send on a closed channel) sets `panicked`; a panicked program makes no further process moves
(the only reachable panic is at `closeIn`, where the pump is neither receiving nor sending).

Executable: the oracle driver (`Golem.Driver.Unbound`) runs exactly these successor functions.
Core Lean only.
-/
import Golem.Go.Pool
namespace Golem.Go.Unbound
open Golem.Go

/-- control points of the pump (see the annotated source above) -/
inductive Pc (α : Type) where
  | main
  | mainGot (x : α)
  | mainSent
  | drain
  | drainGot (x : α)
  | closeIn
  | range
  | rangeGot (x : α)
  | flush
  | flushSent
  | closeEg
  | exited
  deriving DecidableEq, Repr

structure Net (α : Type) where
  pc : Pc α := .main
  /-- send side `in` -/
  inp : Chan α
  /-- receive side `eg` -/
  eg : Chan α
  /-- backlog: contents of the linked queue `mq`, head first -/
  mq : List α := []
  cancelled : Bool := false
  panicked : Bool := false
  -- history variables
  /-- values whose send completed, in order -/
  sent : List α := []
  /-- values the receiver obtained, in order -/
  delivered : List α := []

variable {α : Type}

def init (cap : Nat) : Net α := { inp := { cap := cap }, eg := { cap := cap } }

def pushEg (p : Net α) (v : α) : Net α := { p with eg := { p.eg with buf := p.eg.buf ++ [v] } }

/-- `eg <- v` as a process step: panic on a closed channel, proceed to `next` when there is room -/
def sendEg (p : Net α) (v : α) (next : Pc α) : List (Net α) :=
  if p.eg.closed then [{ p with panicked := true }]
  else if p.eg.buf.length < p.eg.cap then [{ pushEg p v with pc := next }]
  else []

/-- `x, ok := <-in` when it can proceed: a value, or `!ok` on closed and drained -/
def recvIn (p : Net α) (got : α → Pc α) (eof : Pc α) : List (Net α) :=
  match p.inp.buf with
  | x :: rest => [{ p with pc := got x, inp := { p.inp with buf := rest } }]
  | [] => if p.inp.closed then [{ p with pc := eof }] else []

/-- moves of the pump -/
def pumpNext (p : Net α) : List (Net α) :=
  match p.pc with
  | .main =>
    (if p.cancelled then [{ p with pc := .drain }] else [])
    ++ recvIn p .mainGot .flush
    ++ (match p.mq with
        | v :: _ => sendEg p v .mainSent
        | [] => [])
  | .mainGot x => [{ p with pc := .main, mq := p.mq ++ [x] }]
  | .mainSent => [{ p with pc := .main, mq := p.mq.tail }]
  | .drain =>
    match p.inp.buf with
    | x :: rest => [{ p with pc := .drainGot x, inp := { p.inp with buf := rest } }]
    | [] => if p.inp.closed then [{ p with pc := .flush }] else [{ p with pc := .closeIn }]
  | .drainGot x => [{ p with pc := .drain, mq := p.mq ++ [x] }]
  | .closeIn =>
    if p.inp.closed then [{ p with panicked := true }]
    else [{ p with pc := .range, inp := { p.inp with closed := true } }]
  | .range => recvIn p .rangeGot .flush
  | .rangeGot x => [{ p with pc := .range, mq := p.mq ++ [x] }]
  | .flush =>
    match p.mq with
    | v :: _ => sendEg p v .flushSent
    | [] => [{ p with pc := .closeEg }]
  | .flushSent => [{ p with pc := .flush, mq := p.mq.tail }]
  | .closeEg =>
    if p.eg.closed then [{ p with panicked := true }]
    else [{ p with pc := .exited, eg := { p.eg with closed := true } }]
  | .exited => []

/-- all process moves (a panicked program is dead) -/
def procNext (p : Net α) : List (Net α) := if p.panicked then [] else pumpNext p

/-- environment moves -/
inductive Move (α : Type) where
  | send (v : α)
  | close
  | recv
  | cancel

inductive Obs (α : Type) where
  | ok | full | value (v : α) | empty | closed | nope

/-- 1 when the pump is at a point where its receive from `in` is (and stays) enabled -/
def recvReady (p : Net α) : Nat :=
  match p.pc with
  | .main | .drain => 1
  | _ => 0

/-- hand-off: the pump is blocked in `eg <- head(mq)` and the buffer is empty -/
def handoff (p : Net α) : List (Net α × α) :=
  if p.eg.closed ∨ p.eg.buf ≠ [] then [] else
  match p.pc, p.mq with
  | .main, v :: _ => [({ p with pc := .mainSent, delivered := p.delivered ++ [v] }, v)]
  | .flush, v :: _ => [({ p with pc := .flushSent, delivered := p.delivered ++ [v] }, v)]
  | _, _ => []

/-- successors under an environment move with what the environment observes; a non-blocking
attempt that cannot proceed leaves the state unchanged -/
def envNext (p : Net α) : Move α → List (Net α × Obs α)
  | .send v =>
    if p.inp.closed then [(p, .nope)]
    else if p.inp.buf.length < p.inp.cap + recvReady p then
      [({ p with inp := { p.inp with buf := p.inp.buf ++ [v] }, sent := p.sent ++ [v] }, .ok)]
    else [(p, .full)]
  | .close =>
    if p.inp.closed then [(p, .nope)]
    else [({ p with inp := { p.inp with closed := true } }, .ok)]
  | .recv =>
    match p.eg.buf with
    | v :: rest => [({ p with eg := { p.eg with buf := rest }, delivered := p.delivered ++ [v] }, .value v)]
    | [] =>
      let hs := handoff p
      if hs.isEmpty then [(p, if p.eg.closed then .closed else .empty)]
      else hs.map fun (q, v) => (q, .value v)
  | .cancel => [({ p with cancelled := true }, .ok)]

/-- one step of the network: a process move or an environment move -/
def Step (p q : Net α) : Prop := q ∈ procNext p ∨ ∃ m o, (q, o) ∈ envNext p m

inductive Reachable (cap : Nat) : Net α → Prop
  | init : Reachable cap (init cap)
  | step {p q} : Reachable cap p → Step p q → Reachable cap q

/-- The sender's protocol: the send side is not closed by the sender once the context is
cancelled (after a cancel the pump closes `in` itself; a sender that closes it concurrently
races with that close, see `Props/C08.cancel_close_race_panics`). -/
def Polite (p : Net α) : Move α → Prop
  | .close => p.cancelled = false
  | _ => True

def StepP (p q : Net α) : Prop := q ∈ procNext p ∨ ∃ m o, Polite p m ∧ (q, o) ∈ envNext p m

inductive ReachableP (cap : Nat) : Net α → Prop
  | init : ReachableP cap (init cap)
  | step {p q} : ReachableP cap p → StepP p q → ReachableP cap q

/-- The states of a pair that was created under a context that is ALREADY done and sent to at once: the cancel, then the
sends that complete, all before the pump has taken its first step (the lock-step driver starts scripts with `pre=1
presend=…` here; `Props/C08.preStart_reachable`: they are reachable states, so every theorem speaks about them). -/
def preStart (cap : Nat) (vs : List α) : List (Net α) :=
  vs.foldl (fun sts v => sts.flatMap fun p =>
      ((envNext p (.send v)).filter fun qo => match qo.2 with | .ok => true | _ => false).map (·.1))
    ((envNext (init cap) .cancel).map (·.1))

/-- the value the pump holds between `<-in` and `enq` -/
def held (p : Net α) : List α :=
  match p.pc with
  | .mainGot x | .drainGot x | .rangeGot x => [x]
  | _ => []

/-- the backlog not yet passed to `eg`: between `eg <- head(mq)` and `deq(mq)` the head is
already on its way -/
def backlog (p : Net α) : List α :=
  match p.pc with
  | .mainSent | .flushSent => p.mq.tail
  | _ => p.mq

end Golem.Go.Unbound
