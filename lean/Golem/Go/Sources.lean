/-
Go-semantics kernel, part 2: the SOURCE stages `pipe.Emit` and `pipe.Unfold` on a virtual clock.

    func Emit(ctx, cap, frequency, f) (<-chan T, <-chan error) {
        out := make(chan T, cap); exx := f.errch(cap)          -- errch: 1 for Pure/Lift, cap for Try
        go func() {
            defer close(out); defer close(exx)                 -- LIFO: close(exx) first, then close(out)
            for i := 0; true; i++ {                            -- eLoop i
                time.Sleep(frequency)                          -- eSleep i wake
                val, err = f.Apply(i)                          -- eApply i
                if err != nil {
                    if !f.catch(ctx, err, exx) { return }      -- eCatch i err
                    continue
                }
                select { case out <- val: case <-ctx.Done(): return }   -- eOffer i val
            }
        }()
        return out, exx }

    func Unfold(ctx, cap, seed, f) (<-chan A, <-chan error) {
        out := make(chan A, cap); exx := f.errch(cap)
        go func() {
            defer close(out); defer close(exx)
            for {
                select { case out <- seed: case <-ctx.Done(): return }  -- uOffer seed
                seed, err = f.Apply(seed)                               -- uApply seed
                if err != nil {
                    if !f.catch(ctx, err, exx) { return }               -- uCatch seed' err
                    continue
                }
            }
        }()
        return out, exx }

`catch` (function.go): Pure/Lift = plain send `exx <- err`, then `return`;
Try = `select { case exx <- err: | case <-ctx.Done(): return }`, then `continue`.

NOTE on Unfold under Try: `seed, err = f.Apply(seed)` overwrites `seed` with whatever value the
function returns *together with* the error (the zero value for the usual `return zero, err`), and
`continue` goes back to the `select` that sends `seed`.  So after a failing step the stream goes on
from that returned value.  The model keeps this: `unfoldF s = (s', some e)` carries the value `s'`.

One process, one control point per statement, two channels, the context flag, a virtual clock
`now` (milliseconds) and history variables with virtual time stamps.  The environment (consumer of
`out`, consumer of `exx`, owner of the context, the clock) is unconstrained.

Time.  `Step` is the LAX semantics: a `tick d` move may let any amount of time pass at any
moment, so a sleeping process may wake up late and any statement may be delayed; lower bounds on
time stamps are proved for `Step`.  `EagerStep ⊆ Step` is the EAGER semantics executed by the oracle
driver and realised by `testing/synctest`: time passes only when no process move is enabled and
never beyond a pending wake-up, i.e. timers fire exactly when due.

Everything is executable; the oracle driver (`Golem/Driver/Timed.lean`) runs exactly these
successor functions.  Core Lean only.
-/
import Golem.Model.Stages
namespace Golem.Go.Sources
open Golem.Go Golem.Model

/-- control points (with the live locals) of the two goroutines -/
inductive Pc (β ε : Type) where
  | eLoop (i : Nat)
  | eSleep (i : Nat) (wake : Nat)
  | eApply (i : Nat)
  | eOffer (i : Nat) (v : β)
  | eCatch (i : Nat) (e : ε)
  | uOffer (s : β)
  | uApply (s : β)
  | uCatch (s : β) (e : ε)
  | closeExx
  | closeOut
  | exited

/-- the parameters of a source: error mode of the `F` wrapper, `frequency` (virtual ms), and the user
function (total and pure).  Emit: `emitF i = .ok val | .error err`.  Unfold: `unfoldF s = (s', err?)`,
both results of `f.Apply(s)` because the value is assigned to `seed` even when `err != nil`. -/
structure Fn (β ε : Type) where
  mode : ErrMode
  freq : Nat
  emitF : Nat → Except ε β
  unfoldF : β → β × Option ε

structure Src (β ε : Type) where
  pc : Pc β ε
  out : Chan β
  exx : Chan ε
  cancelled : Bool := false
  panicked : Bool := false
  /-- virtual clock -/
  now : Nat := 0
  -- history variables
  /-- loop iterations completed (result sent, or error handed over) -/
  iters : Nat := 0
  /-- completed sends on `out`, with the time of the send -/
  emitted : List (β × Nat) := []
  /-- values the environment received from `out`, with the time of the receive -/
  delivered : List (β × Nat) := []
  errsEmitted : List (ε × Nat) := []
  errsDelivered : List (ε × Nat) := []
  /-- call log of Emit's function: (argument, time) -/
  callsE : List (Nat × Nat) := []
  /-- call log of Unfold's function: (argument, time) -/
  callsU : List (β × Nat) := []

variable {β ε : Type}

/-- capacity of the error channel: `f.errch(cap)` -/
def exxCap : ErrMode → Nat → Nat
  | .lift, _ => 1
  | .try_, cap => cap

def initEmit (m : ErrMode) (cap : Nat) : Src β ε :=
  { pc := .eLoop 0, out := { cap := cap }, exx := { cap := exxCap m cap } }

def initUnfold (m : ErrMode) (cap : Nat) (seed : β) : Src β ε :=
  { pc := .uOffer seed, out := { cap := cap }, exx := { cap := exxCap m cap } }

/-- the send arm `out <- v` (process side): panic on a closed channel, enabled with free buffer space -/
def sendOut (p : Src β ε) (v : β) (next : Pc β ε) (bump : Nat) : List (Src β ε) :=
  if p.out.closed then [{ p with panicked := true }]
  else if p.out.buf.length < p.out.cap then
    [{ p with out := { p.out with buf := p.out.buf ++ [v] }, emitted := p.emitted ++ [(v, p.now)],
              pc := next, iters := p.iters + bump }]
  else []

/-- the send `exx <- e` (process side); it completes the iteration -/
def sendExx (p : Src β ε) (e : ε) (next : Pc β ε) : List (Src β ε) :=
  if p.exx.closed then [{ p with panicked := true }]
  else if p.exx.buf.length < p.exx.cap then
    [{ p with exx := { p.exx with buf := p.exx.buf ++ [e] }, errsEmitted := p.errsEmitted ++ [(e, p.now)],
              pc := next, iters := p.iters + 1 }]
  else []

/-- the arm `case <-ctx.Done(): return` — the deferred closes start -/
def doneArm (p : Src β ε) : List (Src β ε) :=
  if p.cancelled then [{ p with pc := .closeExx }] else []

/-- process moves (`select` with several enabled arms: every arm is a successor) -/
def procNext (P : Fn β ε) (p : Src β ε) : List (Src β ε) :=
  match p.pc with
  | .eLoop i => [{ p with pc := .eSleep i (p.now + P.freq) }]
  | .eSleep i w => if w ≤ p.now then [{ p with pc := .eApply i }] else []
  | .eApply i =>
    match P.emitF i with
    | .ok v => [{ p with pc := .eOffer i v, callsE := p.callsE ++ [(i, p.now)] }]
    | .error e => [{ p with pc := .eCatch i e, callsE := p.callsE ++ [(i, p.now)] }]
  | .eOffer i v => sendOut p v (.eLoop (i + 1)) 1 ++ doneArm p
  | .eCatch i e =>
    match P.mode with
    | .lift => sendExx p e .closeExx
    | .try_ => sendExx p e (.eLoop (i + 1)) ++ doneArm p
  | .uOffer s => sendOut p s (.uApply s) 0 ++ doneArm p
  | .uApply s =>
    match (P.unfoldF s).2 with
    | none => [{ p with pc := .uOffer (P.unfoldF s).1, callsU := p.callsU ++ [(s, p.now)], iters := p.iters + 1 }]
    | some e => [{ p with pc := .uCatch (P.unfoldF s).1 e, callsU := p.callsU ++ [(s, p.now)] }]
  | .uCatch s e =>
    match P.mode with
    | .lift => sendExx p e .closeExx
    | .try_ => sendExx p e (.uOffer s) ++ doneArm p
  | .closeExx =>
    if p.exx.closed then [{ p with panicked := true }]
    else [{ p with exx := { p.exx with closed := true }, pc := .closeOut }]
  | .closeOut =>
    if p.out.closed then [{ p with panicked := true }]
    else [{ p with out := { p.out with closed := true }, pc := .exited }]
  | .exited => []

/-- environment moves: receive from `out` (0) or `exx` (1), cancel the context, let `d` ms pass -/
inductive Move where
  | recv (k : Nat)
  | cancel
  | tick (d : Nat)

inductive Obs (β ε : Type) where
  | ok | value (v : β) | err (e : ε) | empty | closed | nope

/-- direct hand-off on `out`: the process is blocked offering `v`, the buffer is empty -/
def handOut (p : Src β ε) : Option (Src β ε × β) :=
  if p.out.closed = true ∨ p.out.buf ≠ [] then none else
  match p.pc with
  | .eOffer i v =>
    some ({ p with pc := .eLoop (i + 1), iters := p.iters + 1, emitted := p.emitted ++ [(v, p.now)],
                   delivered := p.delivered ++ [(v, p.now)] }, v)
  | .uOffer s =>
    some ({ p with pc := .uApply s, emitted := p.emitted ++ [(s, p.now)],
                   delivered := p.delivered ++ [(s, p.now)] }, s)
  | _ => none

/-- where the loop goes once `catch` has handed the error over -/
def afterCatch (P : Fn β ε) : Pc β ε → Pc β ε
  | .eCatch i _ => match P.mode with | .lift => .closeExx | .try_ => .eLoop (i + 1)
  | .uCatch s _ => match P.mode with | .lift => .closeExx | .try_ => .uOffer s
  | pc => pc

/-- direct hand-off on `exx` -/
def handExx (P : Fn β ε) (p : Src β ε) : Option (Src β ε × ε) :=
  if p.exx.closed = true ∨ p.exx.buf ≠ [] then none else
  match p.pc with
  | .eCatch i e =>
    some ({ p with pc := afterCatch P (.eCatch i e), iters := p.iters + 1, errsEmitted := p.errsEmitted ++ [(e, p.now)],
                   errsDelivered := p.errsDelivered ++ [(e, p.now)] }, e)
  | .uCatch s e =>
    some ({ p with pc := afterCatch P (.uCatch s e), iters := p.iters + 1, errsEmitted := p.errsEmitted ++ [(e, p.now)],
                   errsDelivered := p.errsDelivered ++ [(e, p.now)] }, e)
  | _ => none

/-- successors under an environment move with what the environment observes; a non-blocking
attempt that cannot proceed leaves the state unchanged -/
def envNext (P : Fn β ε) (p : Src β ε) : Move → List (Src β ε × Obs β ε)
  | .recv 0 =>
    match p.out.buf with
    | v :: rest => [({ p with out := { p.out with buf := rest }, delivered := p.delivered ++ [(v, p.now)] }, .value v)]
    | [] =>
      match handOut p with
      | some (q, v) => [(q, .value v)]
      | none => [(p, if p.out.closed then .closed else .empty)]
  | .recv 1 =>
    match p.exx.buf with
    | e :: rest => [({ p with exx := { p.exx with buf := rest }, errsDelivered := p.errsDelivered ++ [(e, p.now)] }, .err e)]
    | [] =>
      match handExx P p with
      | some (q, e) => [(q, .err e)]
      | none => [(p, if p.exx.closed then .closed else .empty)]
  | .recv _ => [(p, .nope)]
  | .cancel => [({ p with cancelled := true }, .ok)]
  | .tick d => [({ p with now := p.now + d }, .ok)]

/-- one step of the network, LAX time: a process move or any environment move -/
def Step (P : Fn β ε) (p q : Src β ε) : Prop :=
  q ∈ procNext P p ∨ ∃ m o, (q, o) ∈ envNext P p m

inductive Reachable (P : Fn β ε) (p0 : Src β ε) : Src β ε → Prop
  | init : Reachable P p0 p0
  | step {p q} : Reachable P p0 p → Step P p q → Reachable P p0 q

/-- A source created under a context that is ALREADY cancelled: the cancel happens before the goroutine's first step
(the lock-step driver starts `pre=1` scripts here; reachable by `Props/C11.preStart_reachable`). -/
def preStart (P : Fn β ε) (p0 : Src β ε) : List (Src β ε) := (envNext P p0 .cancel).map (·.1)

/-- pending wake-up -/
def wake? (p : Src β ε) : Option Nat :=
  match p.pc with
  | .eSleep _ w => some w
  | _ => none

/-- `tick d` is admissible under EAGER time: nothing else can move and no wake-up is overshot -/
def tickOk (P : Fn β ε) (p : Src β ε) (d : Nat) : Prop :=
  procNext P p = [] ∧ ∀ w, wake? p = some w → p.now + d ≤ w

/-- one step, EAGER time (timers fire exactly when due; what `testing/synctest` implements) -/
def EagerStep (P : Fn β ε) (p q : Src β ε) : Prop :=
  q ∈ procNext P p ∨ (∃ k o, (q, o) ∈ envNext P p (.recv k)) ∨ (∃ o, (q, o) ∈ envNext P p .cancel) ∨
    ∃ d o, tickOk P p d ∧ (q, o) ∈ envNext P p (.tick d)

inductive EagerReachable (P : Fn β ε) (p0 : Src β ε) : Src β ε → Prop
  | init : EagerReachable P p0 p0
  | step {p q} : EagerReachable P p0 p → EagerStep P p q → EagerReachable P p0 q

/-- can the environment obtain something from channel `k` right now? -/
def canRecv (P : Fn β ε) (p : Src β ε) (k : Nat) : Bool :=
  (envNext P p (.recv k)).any fun (_, o) => match o with
    | .value _ => true
    | .err _ => true
    | _ => false

/-- EAGER time with a consumer that KEEPS UP: time passes only when, in addition, neither channel
has anything to offer (buffered or by hand-off) — the consumer receives whatever is available before
the next tick -/
def KeepUpStep (P : Fn β ε) (p q : Src β ε) : Prop :=
  q ∈ procNext P p ∨ (∃ k o, (q, o) ∈ envNext P p (.recv k)) ∨
    ∃ d o, tickOk P p d ∧ canRecv P p 0 = false ∧ canRecv P p 1 = false ∧ (q, o) ∈ envNext P p (.tick d)

inductive KeepUpReachable (P : Fn β ε) (p0 : Src β ε) : Src β ε → Prop
  | init : KeepUpReachable P p0 p0
  | step {p q} : KeepUpReachable P p0 p → KeepUpStep P p q → KeepUpReachable P p0 q

/-! ### executable exploration used by the oracle driver -/

/-- all states in which the process has come to rest, following every branch (fuel = depth bound;
`Lemmas/Sources.lean` proves the process-move relation terminates) -/
def quiesce (P : Fn β ε) : Nat → Src β ε → List (Src β ε)
  | 0, p => [p]
  | n + 1, p =>
    if p.panicked then [p] else
    match procNext P p with
    | [] => [p]
    | qs => qs.flatMap (quiesce P n)

/-- the script move `t<d>` from a state at rest: `d` ms pass; every wake-up that falls due within
the window fires at its time, in order, the process running to rest after each (the first argument
bounds the number of wake-ups: `d + 1` is enough; out of rounds = no state, reported by the driver) -/
def advance (P : Fn β ε) (fuel : Nat) : Nat → Nat → Src β ε → List (Src β ε)
  | 0, _, _ => []
  | r + 1, d, p =>
    match wake? p with
    | some w =>
      if p.now ≤ w ∧ w ≤ p.now + d then
        (quiesce P fuel { p with now := w }).flatMap fun q => advance P fuel r (p.now + d - w) q
      else [{ p with now := p.now + d }]
    | none => [{ p with now := p.now + d }]

/-! ### sequential meaning (specification side) -/

/-- results of Emit's function on the non-failing indices below `n`, in order -/
def okVals (P : Fn β ε) (n : Nat) : List β :=
  (List.range n).filterMap fun j => match P.emitF j with | .ok v => some v | .error _ => none

/-- errors of Emit's function on the failing indices below `n`, in order -/
def errVals (P : Fn β ε) (n : Nat) : List ε :=
  (List.range n).filterMap fun j => match P.emitF j with | .ok _ => none | .error e => some e

/-- the step function of Unfold: the value component of `f.Apply` -/
def stepU (P : Fn β ε) (s : β) : β := (P.unfoldF s).1

/-- `k`-th seed: `stepU` iterated `k` times -/
def seedAt (P : Fn β ε) (seed : β) : Nat → β
  | 0 => seed
  | k + 1 => stepU P (seedAt P seed k)

/-- `[seed, f seed, f (f seed), …]`, `n` of them -/
def iterates (P : Fn β ε) (seed : β) (n : Nat) : List β := (List.range n).map (seedAt P seed)

/-- errors of the first `n` applications of Unfold's function -/
def errsU (P : Fn β ε) (seed : β) (n : Nat) : List ε :=
  (List.range n).filterMap fun k => (P.unfoldF (seedAt P seed k)).2

end Golem.Go.Sources
