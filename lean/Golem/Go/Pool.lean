/-
Go-semantics kernel, part 1: a *pool* of sequential channel workers.

One network shape covers every consumer stage of `pipe` (one worker, deferred closes),
every `fork` stage (`par` workers sharing the input, a closer waiting on the WaitGroup) and
`pipe.Join` (`k` copiers, one input each, sharing `out`).

A worker is the loop

    for a = range in {            -- idle
        … f.Apply(a) …            -- calling   (user function; optionally gated by the environment)
        … sends under select …    -- busy      (pending emissions, each `select{out<-v | <-ctx.Done()}` or a plain send)
        … poll ctx.Done() …       -- busy [] poll
    }
    deferred sends / wg.Done()    -- exiting / exited

described by the data `Stage.react` / `Stage.final`, written next to the Go text of each stage
in `Golem/Model/Stages.lean`.  The environment (producer, consumers, the context's owner) is
unconstrained: `Step` has one constructor-like successor list per environment move and per
process move; theorems quantify over every finite sequence of steps, i.e. every schedule.

Everything here is executable: the oracle driver runs exactly these successor functions.
Core Lean only.
-/
namespace Golem.Go

structure Chan (β : Type) where
  buf : List β := []
  cap : Nat := 0
  closed : Bool := false

/-- `sel`: `select { case ch <- v: | case <-ctx.Done(): return }`; `plain`: `ch <- v`. -/
inductive Mode | sel | plain
  deriving DecidableEq, Repr

/-- What the loop body does once its sends are through: next iteration, poll `ctx.Done()`
(`select { case <-ctx.Done(): return; default: }`) and then next iteration, or `return`. -/
inductive After | cont | poll | stop
  deriving DecidableEq, Repr

/-- Why a worker left its loop: input closed and drained, the body returned, `ctx.Done()`. -/
inductive Why | eof | stop | done
  deriving DecidableEq, Repr

structure Em (β : Type) where
  ch : Nat
  val : β
  mode : Mode

structure Stage (σ α β : Type) where
  /-- one loop iteration on element `a` in local state `s`: new local state, the sends the
  iteration performs in order, and how the iteration ends -/
  react : σ → α → σ × List (Em β) × After
  /-- plain sends performed by the deferred exit path (e.g. `done <- acc` in Fold) -/
  final : σ → List (Nat × β)

inductive Ctl (σ α β : Type) where
  | idle (s : σ)
  | calling (s : σ) (a : α)
  | busy (s : σ) (ems : List (Em β)) (aft : After)
  | exiting (s : σ) (fin : List (Nat × β)) (why : Why)
  | exited (s : σ) (why : Why)

structure Worker (σ α β : Type) where
  inp : Nat
  ctl : Ctl σ α β
  /-- history: elements this worker has received, in order -/
  hist : List α := []
  /-- history: loop-body sends this worker has completed, in order -/
  out : List (Em β) := []
  /-- history: exit-path sends completed -/
  fout : List (Nat × β) := []

structure Pool (σ α β : Type) where
  nW : Nat
  ws : Nat → Worker σ α β
  ins : Nat → Chan α
  outs : Nat → Chan β
  /-- outputs the closer (or the deferred closes) still has to close, in order -/
  toClose : List Nat
  cancelled : Bool := false
  /-- user-function calls wait for an environment `release` move -/
  gated : Bool := false
  panicked : Bool := false
  -- history variables
  sent : Nat → List α := fun _ => []
  taken : Nat → List (Nat × α) := fun _ => []
  emitted : Nat → List (Nat × β) := fun _ => []
  delivered : Nat → List β := fun _ => []

variable {σ α β : Type}

namespace Pool

def upd {γ : Type} (f : Nat → γ) (i : Nat) (x : γ) : Nat → γ := fun j => if j = i then x else f j

@[simp] theorem upd_same {γ : Type} (f : Nat → γ) (i : Nat) (x : γ) : upd f i x i = x := by simp [upd]
@[simp] theorem upd_other {γ : Type} (f : Nat → γ) (i j : Nat) (x : γ) (h : j ≠ i) : upd f i x j = f j := by simp [upd, h]

def setW (p : Pool σ α β) (i : Nat) (w : Worker σ α β) : Pool σ α β := { p with ws := upd p.ws i w }

def Ctl.isExited : Ctl σ α β → Bool
  | .exited _ _ => true
  | _ => false

def Ctl.isIdle : Ctl σ α β → Bool
  | .idle _ => true
  | _ => false

def allExited (p : Pool σ α β) : Bool := (List.range p.nW).all fun i => Ctl.isExited (p.ws i).ctl

/-- number of workers parked at `range in` on input `j` (each can take a value by direct hand-off) -/
def idleOn (p : Pool σ α β) (j : Nat) : Nat :=
  ((List.range p.nW).filter fun i => (p.ws i).inp == j && Ctl.isIdle (p.ws i).ctl).length

/-- push `v` on output `k` as worker `i` -/
def pushOut (p : Pool σ α β) (i k : Nat) (v : β) : Pool σ α β :=
  { p with outs := upd p.outs k { p.outs k with buf := (p.outs k).buf ++ [v] },
           emitted := upd p.emitted k (p.emitted k ++ [(i, v)]) }

/-- successors of worker `i` (process moves) -/
def workerNext (st : Stage σ α β) (p : Pool σ α β) (i : Nat) : List (Pool σ α β) :=
  let w := p.ws i
  match w.ctl with
  | .idle s =>
    match (p.ins w.inp).buf with
    | a :: rest =>
      [{ (p.setW i { w with ctl := .calling s a, hist := w.hist ++ [a] }) with
          ins := upd p.ins w.inp { p.ins w.inp with buf := rest },
          taken := upd p.taken w.inp (p.taken w.inp ++ [(i, a)]) }]
    | [] => if (p.ins w.inp).closed then [p.setW i { w with ctl := .exiting s (st.final s) .eof }] else []
  | .calling s a =>
    if p.gated then [] else
      let r := st.react s a
      [p.setW i { w with ctl := .busy r.1 r.2.1 r.2.2 }]
  | .busy s [] aft =>
    match aft with
    | .cont => [p.setW i { w with ctl := .idle s }]
    | .stop => [p.setW i { w with ctl := .exiting s (st.final s) .stop }]
    | .poll => if p.cancelled then [p.setW i { w with ctl := .exiting s (st.final s) .done }]
               else [p.setW i { w with ctl := .idle s }]
  | .busy s (e :: rest) aft =>
    (if (p.outs e.ch).closed then [{ p with panicked := true }]
     else if (p.outs e.ch).buf.length < (p.outs e.ch).cap then
       [(p.pushOut i e.ch e.val).setW i { w with ctl := .busy s rest aft, out := w.out ++ [e] }]
     else [])
    ++ (if e.mode = .sel ∧ p.cancelled then [p.setW i { w with ctl := .exiting s (st.final s) .done }] else [])
  | .exiting s [] why => [p.setW i { w with ctl := .exited s why }]
  | .exiting s ((k, v) :: rest) why =>
    if (p.outs k).closed then [{ p with panicked := true }]
    else if (p.outs k).buf.length < (p.outs k).cap then
      [(p.pushOut i k v).setW i { w with ctl := .exiting s rest why, fout := w.fout ++ [(k, v)] }]
    else []
  | .exited _ _ => []

/-- the closer goroutine (`wg.Wait(); close(out); …`) / the deferred closes of a single worker -/
def closerNext (p : Pool σ α β) : List (Pool σ α β) :=
  match p.toClose with
  | [] => []
  | k :: rest =>
    if p.allExited then
      if (p.outs k).closed then [{ p with panicked := true }]
      else [{ p with outs := upd p.outs k { p.outs k with closed := true }, toClose := rest }]
    else []

/-- all process moves -/
def procNext (st : Stage σ α β) (p : Pool σ α β) : List (Pool σ α β) :=
  (List.range p.nW).flatMap (workerNext st p) ++ closerNext p

/-- environment moves -/
inductive Move (α : Type) where
  | send (j : Nat) (v : α)
  | close (j : Nat)
  | recv (k : Nat)
  | cancel
  | release (i : Nat)

/-- Result of an environment move as the environment sees it. -/
inductive Obs (β : Type) where
  | ok | full | value (v : β) | empty | closed | nope

/-- hand-off: worker `i` is blocked sending its next value on `k` and the buffer is empty -/
def handoff (p : Pool σ α β) (k i : Nat) : List (Pool σ α β × β) :=
  let w := p.ws i
  match w.ctl with
  | .busy s (e :: rest) aft =>
    if e.ch = k ∧ (p.outs k).buf = [] ∧ ¬ (p.outs k).closed then
      [({ (p.setW i { w with ctl := .busy s rest aft, out := w.out ++ [e] }) with
            emitted := upd p.emitted k (p.emitted k ++ [(i, e.val)]),
            delivered := upd p.delivered k (p.delivered k ++ [e.val]) }, e.val)]
    else []
  | .exiting s ((k', v) :: rest) why =>
    if k' = k ∧ (p.outs k).buf = [] ∧ ¬ (p.outs k).closed then
      [({ (p.setW i { w with ctl := .exiting s rest why, fout := w.fout ++ [(k, v)] }) with
            emitted := upd p.emitted k (p.emitted k ++ [(i, v)]),
            delivered := upd p.delivered k (p.delivered k ++ [v]) }, v)]
    else []
  | _ => []

/-- successors under an environment move, each with what the environment observes;
a non-blocking attempt that cannot proceed leaves the state unchanged -/
def envNext (st : Stage σ α β) (p : Pool σ α β) : Move α → List (Pool σ α β × Obs β)
  | .send j v =>
    if (p.ins j).closed then [(p, .nope)]
    else if (p.ins j).buf.length < (p.ins j).cap + p.idleOn j then
      [({ p with ins := upd p.ins j { p.ins j with buf := (p.ins j).buf ++ [v] },
                 sent := upd p.sent j (p.sent j ++ [v]) }, .ok)]
    else [(p, .full)]
  | .close j =>
    if (p.ins j).closed then [(p, .nope)]
    else [({ p with ins := upd p.ins j { p.ins j with closed := true } }, .ok)]
  | .recv k =>
    match (p.outs k).buf with
    | v :: rest =>
      [({ p with outs := upd p.outs k { p.outs k with buf := rest },
                 delivered := upd p.delivered k (p.delivered k ++ [v]) }, .value v)]
    | [] =>
      let hs := (List.range p.nW).flatMap (handoff p k)
      if hs.isEmpty then [(p, if (p.outs k).closed then .closed else .empty)]
      else hs.map fun (q, v) => (q, .value v)
  | .cancel => [({ p with cancelled := true }, .ok)]
  | .release i =>
    match (p.ws i).ctl with
    | .calling s a =>
      let r := st.react s a
      [(p.setW i { p.ws i with ctl := .busy r.1 r.2.1 r.2.2 }, .ok)]
    | _ => [(p, .nope)]

/-- one step of the network: a process move or an environment move -/
def Step (st : Stage σ α β) (p q : Pool σ α β) : Prop :=
  q ∈ procNext st p ∨ ∃ m o, (q, o) ∈ envNext st p m

inductive Reachable (st : Stage σ α β) (p0 : Pool σ α β) : Pool σ α β → Prop
  | init : Reachable st p0 p0
  | step {p q} : Reachable st p0 p → Step st p q → Reachable st p0 q

/-- initial pool: `nW` idle workers in local state `s0`, worker `i` reading input `inp i` -/
def init (nW : Nat) (inp : Nat → Nat) (s0 : σ) (inCap outCap : Nat → Nat) (toClose : List Nat) (gated : Bool) :
    Pool σ α β :=
  { nW := nW,
    ws := fun i => { inp := inp i, ctl := .idle s0 },
    ins := fun j => { cap := inCap j },
    outs := fun k => { cap := outCap k },
    toClose := toClose, gated := gated }

end Pool

/-! ### sequential meaning of a stage: what one worker emits for a consumed list -/

namespace Stage

structure Run (σ β : Type) where
  s : σ
  ems : List (Em β)
  stopped : Bool

def runL (st : Stage σ α β) (r : Run σ β) (a : α) : Run σ β :=
  if r.stopped then r else
    let x := st.react r.s a
    { s := x.1, ems := r.ems ++ x.2.1, stopped := x.2.2 == .stop }

def run (st : Stage σ α β) (s0 : σ) (as : List α) : Run σ β :=
  as.foldl st.runL { s := s0, ems := [], stopped := false }

/-- values a run sends on channel `k` -/
def onCh (k : Nat) (es : List (Em β)) : List β := (es.filter (·.ch == k)).map (·.val)

end Stage

end Golem.Go
