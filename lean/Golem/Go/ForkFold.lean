/-
`fork.Fold(ctx, par, in, m)`: `par` folding workers (the pool `forkPool` with `foldS`, whose exit
path sends the partial accumulator on `vals`, capacity `par`) and the collector goroutine

    wg.Wait()
    acc := m.Empty()                       -- (repaired; was `var acc A`)
    for i := 1; i <= par; i++ { acc = m.Combine(acc, <-vals) }
    done <- acc                            -- capacity 1
    close(vals); close(done)

The pool component only ever makes pool moves (the collector's `<-vals` is the pool's receive move
on output 0), so every invariant of `Golem.Go.Pool` carries over. `close(vals)` is unobservable
(nobody else reads `vals`) and is a control point without effect. Core Lean only.
-/
import Golem.Model.Stages
namespace Golem.Go
open Golem.Go.Pool Golem.Model

inductive Coll (α : Type) where
  | waiting
  | reading (n : Nat) (acc : α)
  | sending (acc : α)
  | closeVals
  | closeDone
  | halted

structure FF (α : Type) where
  pool : Pool α α α
  coll : Coll α := .waiting
  done : Chan α := { cap := 1 }
  delivered : List α := []

namespace FF
variable {α : Type}

def init (e : α) (par inCap : Nat) (gated : Bool) : FF α :=
  { pool := forkPool e par inCap (fun _ => par) [] gated }

/-- collector moves -/
def collNext (c : α → α → α) (e : α) (par : Nat) (s : FF α) : List (FF α) :=
  match s.coll with
  | .waiting => if s.pool.allExited then [{ s with coll := .reading par e }] else []
  | .reading 0 acc => [{ s with coll := .sending acc }]
  | .reading (n + 1) acc =>
    (envNext (foldS c) s.pool (.recv 0)).filterMap fun (q, o) =>
      match o with
      | .value v => some { s with pool := q, coll := .reading n (c acc v) }
      | _ => none
  | .sending acc =>
    if s.done.buf.length < s.done.cap then
      [{ s with done := { s.done with buf := s.done.buf ++ [acc] }, coll := .closeVals }]
    else []
  | .closeVals => [{ s with coll := .closeDone }]
  | .closeDone => [{ s with done := { s.done with closed := true }, coll := .halted }]
  | .halted => []

def procNext (c : α → α → α) (e : α) (par : Nat) (s : FF α) : List (FF α) :=
  (Pool.procNext (foldS c) s.pool).map (fun q => { s with pool := q }) ++ collNext c e par s

inductive Move (α : Type) where
  | send (v : α) | close | cancel | recv | release (i : Nat)

def envNext (c : α → α → α) (s : FF α) : Move α → List (FF α × Obs α)
  | .send v => (Pool.envNext (foldS c) s.pool (.send 0 v)).map fun (q, o) => ({ s with pool := q }, o)
  | .close => (Pool.envNext (foldS c) s.pool (.close 0)).map fun (q, o) => ({ s with pool := q }, o)
  | .cancel => (Pool.envNext (foldS c) s.pool .cancel).map fun (q, o) => ({ s with pool := q }, o)
  | .release i => (Pool.envNext (foldS c) s.pool (.release i)).map fun (q, o) => ({ s with pool := q }, o)
  | .recv =>
    match s.done.buf with
    | v :: rest => [({ s with done := { s.done with buf := rest }, delivered := s.delivered ++ [v] }, .value v)]
    | [] => [(s, if s.done.closed then .closed else .empty)]

def Step (c : α → α → α) (e : α) (par : Nat) (s t : FF α) : Prop :=
  t ∈ procNext c e par s ∨ ∃ m o, (t, o) ∈ envNext c s m

inductive Reachable (c : α → α → α) (e : α) (par : Nat) (s0 : FF α) : FF α → Prop
  | init : Reachable c e par s0 s0
  | step {s t} : Reachable c e par s0 s → Step c e par s t → Reachable c e par s0 t

end FF
end Golem.Go
