/-
The consumer stages of `pipe/pipe.go` and `pipe/fork/fork.go` as `Stage` data, each written next
to the Go loop body it mirrors, and the pool configurations (`pipe`: one worker, deferred closes;
`fork`: `par` workers + closer; `Join`: one copier per input).

Channel numbering: output 0 = `out` (or `lout`, `done`), output 1 = `exx` (or `rout`).
Error handling (`function.go`): `catch` of `pure`/`puref` (Pure, Lift, LiftF) is the plain send
`exx <- err` followed by `return`; `catch` of `try`/`tryf` is `select{exx<-err | <-ctx.Done(): return}`
followed by `continue`.
-/
import Golem.Go.Pool
namespace Golem.Model
open Golem.Go

inductive ErrMode | lift | try_
  deriving DecidableEq, Repr

variable {α β ε : Type}

/-- `f.catch(ctx, err, exx)` -/
def catchEm (m : ErrMode) (e : ε) : Em (β ⊕ ε) :=
  match m with
  | .lift => ⟨1, .inr e, .plain⟩
  | .try_ => ⟨1, .inr e, .sel⟩

/-- what the loop does after `catch`: `return` (fail fast) or `continue` -/
def catchAfter : ErrMode → After
  | .lift => .stop
  | .try_ => .cont

/-- `Map`:  val, err = f.Apply(a); if err != nil { if !f.catch(…) {return}; continue }; select{out<-val | Done} -/
def mapS (m : ErrMode) (f : α → Except ε β) : Stage Unit α (β ⊕ ε) where
  react _ a :=
    match f a with
    | .ok b => ((), [⟨0, .inl b, .sel⟩], .cont)
    | .error e => ((), [catchEm m e], catchAfter m)
  final _ := []

/-- `FMap` with the arrow family "send the elements of `g a` one by one under
`select{out<-b | <-ctx.Done(): return nil}`, then return the error (if any)":
    if err := fmap.Apply(ctx,a,out); err != nil { if !catch {return}; continue }; poll ctx.Done -/
def fmapS (m : ErrMode) (g : α → List β × Option ε) : Stage Unit α (β ⊕ ε) where
  react _ a :=
    let bs := (g a).1.map fun b => (⟨0, .inl b, .sel⟩ : Em (β ⊕ ε))
    match (g a).2 with
    | none => ((), bs, .poll)
    | some e => ((), bs ++ [catchEm m e], catchAfter m)
  final _ := []

/-- `Filter`: if take, err := f.Apply(a); take && err == nil { select{out<-a | Done} } -/
def filterS (f : α → Except ε Bool) : Stage Unit α α where
  react _ a :=
    match f a with
    | .ok true => ((), [⟨0, a, .sel⟩], .cont)
    | _ => ((), [], .cont)
  final _ := []

/-- `Partition`: select { case sel(f.Apply(a)) <- a: | Done } -/
def partitionS (f : α → Except ε Bool) : Stage Unit α α where
  react _ a :=
    match f a with
    | .ok true => ((), [⟨0, a, .sel⟩], .cont)
    | _ => ((), [⟨1, a, .sel⟩], .cont)
  final _ := []

/-- `TakeWhile`: if take, err := f.Apply(a); !take || err != nil { return }; select{out<-a | Done} -/
def takeWhileS (f : α → Except ε Bool) : Stage Unit α α where
  react _ a :=
    match f a with
    | .ok true => ((), [⟨0, a, .sel⟩], .cont)
    | _ => ((), [], .stop)
  final _ := []

/-- `Take`: select{out<-a | Done}; n--; if n == 0 { return }   (local state: `n`) -/
def takeS : Stage Int α α where
  react n a := (n - 1, [⟨0, a, .sel⟩], if n - 1 = 0 then .stop else .cont)
  final _ := []

/-- `ForEach`: f.Apply(x); poll ctx.Done   (local state: the visit log) -/
def forEachS : Stage (List α) α Unit where
  react log a := (log ++ [a], [], .poll)
  final _ := []

/-- `Void`: poll ctx.Done -/
def voidS : Stage Unit α Unit where
  react _ _ := ((), [], .poll)
  final _ := []

/-- `Fold` (also the workers of `fork.Fold`): acc = m.Combine(acc, x); poll ctx.Done;
deferred: done <- acc (plain send) -/
def foldS (combine : α → α → α) : Stage α α α where
  react acc a := (combine acc a, [], .poll)
  final acc := [(0, acc)]

/-- `Join` copier: select{out<-x | Done} -/
def copyS : Stage Unit α α where
  react _ a := ((), [⟨0, a, .sel⟩], .cont)
  final _ := []

/-- `Seq(xs...)`: a channel of capacity `len(xs)` holding `xs`, already closed -/
def seqChan (xs : List α) : Chan α := { buf := xs, cap := xs.length, closed := true }

/-- `ToSeq(ch)`: `for x := range ch { seq = append(seq, x) }` — on a closed channel the loop takes the
buffered elements one by one until the buffer is empty (fuel = buffer length) -/
def toSeqLoop : Nat → Chan α → List α → List α
  | 0, _, acc => acc
  | n + 1, ch, acc =>
    match ch.buf with
    | [] => acc
    | x :: rest => toSeqLoop n { ch with buf := rest } (acc ++ [x])

def toSeq (ch : Chan α) : List α := toSeqLoop ch.buf.length ch []

/-! pool configurations -/

/-- a `pipe` stage: one goroutine reading input 0; `outCap` as `make` computes them; deferred closes
run in LIFO order (`closes` lists them in execution order) -/
def pipePool {σ γ : Type} (s0 : σ) (inCap : Nat) (outCap : Nat → Nat) (closes : List Nat) (gated := false) : Pool σ α γ :=
  Pool.init 1 (fun _ => 0) s0 (fun _ => inCap) outCap closes gated

/-- `pipe.Take`: `if n <= 0 { close(out); return out }` — no goroutine is started, `out` is closed at
once (the deferred-close list runs with zero workers); otherwise one worker with counter `n` -/
def takePool (n : Int) (inCap : Nat) (gated := false) : Pool Int α α :=
  if n ≤ 0 then Pool.init 0 (fun _ => 0) n (fun _ => inCap) (fun k => ([inCap] : List Nat).getD k 0) [0] gated
  else pipePool n inCap (fun k => ([inCap] : List Nat).getD k 0) [0] gated

/-- a `fork` stage: `par` goroutines sharing input 0; value/error outputs have capacity `par`
(`done` of ForEach/Void has capacity 0), closed by the closer goroutine in source order -/
def forkPool {σ γ : Type} (s0 : σ) (par inCap : Nat) (outCap : Nat → Nat) (closes : List Nat) (gated := false) : Pool σ α γ :=
  Pool.init par (fun _ => 0) s0 (fun _ => inCap) outCap closes gated

/-- `pipe.Join(ctx, in...)`: copier `i` reads input `i`; `out` (output 0, the only one) has capacity `len(in)` -/
def joinPool (k : Nat) (inCap : Nat → Nat) : Pool Unit α α :=
  Pool.init k id () inCap (fun j => ([k] : List Nat).getD j 0) [0] false

end Golem.Model
