/-
The Go text the hand-written models of pipe/queue.go (Model/Queue.lean) and of
`Seq` / `ToSeq` / `StdErr` (Model/Stages.lean `seqChan`, `toSeq`; the always-ready drain of the lock-step driver) were
written against: one trimmed line of gofmt-printed source per list element, comments dropped, annotated here with
the control point / model clause that line became.  go/xlate family `gotext` prints the same functions from the
working tree on every run (`Gen/PipeText.lean`); the `*_text` theorems of Props/C08Gen.lean, C05Gen.lean state the
equality.  This is a SYNTACTIC tie up to the names of locals (no semantic translation exists for these functions): any other edit
breaks it and is then judged by the enlarged lock-step search.  Core Lean only.
-/
namespace Golem.Model.GoText

/-! Names are canonical (family `gotext` renames the type parameters, parameters and locals a function declares to
`T0…`, `p0…`, `v0…` in declaration order, and reads `for i := range xs { … xs[i] … }` as the value loop): a text that
differs from the one below only in the choice of those names, or in that loop form, is the same text. -/

/-- `func newq[A any]() *queue[A]`: v0 = queue -/
def newq_text : List String := [
  "func newq[T0 any]() *queue[T0] {",
  "v0 := &queue[T0]{}",
  "v0.pool.New = func() interface{} { return &q[T0]{} }",
  "return v0",
  "}"]

/-- `func Seq[T any](xs ...T) <-chan T`: p0 = xs, v0 = out, v1 = x -/
def Seq_text : List String := [
  "func Seq[T0 any](p0 ...T0) <-chan T0 {",
  "v0 := make(chan T0, len(p0))",
  "for _, v1 := range p0 {",
  "v0 <- v1",
  "}",
  "close(v0)",
  "return v0",
  "}"]

/-- `func ToSeq[T any](ch <-chan T) []T`: p0 = ch, v0 = seq, v1 = x -/
def ToSeq_text : List String := [
  "func ToSeq[T0 any](p0 <-chan T0) []T0 {",
  "v0 := make([]T0, 0)",
  "for v1 := range p0 {",
  "v0 = append(v0, v1)",
  "}",
  "return v0",
  "}"]

/-- `func StdErr[T any](out <-chan T, exx <-chan error) <-chan T`: p0 = out, p1 = exx, v0 = err -/
def StdErr_text : List String := [
  "func StdErr[T0 any](p0 <-chan T0, p1 <-chan error) <-chan T0 {",
  "go func() {",
  "var v0 error",
  "for v0 = range p1 {",
  "if v0 != nil {",
  "slog.Error(\"pipe stage failed.\", \"error\", v0)",
  "}",
  "}",
  "}()",
  "return p0",
  "}"]

end Golem.Model.GoText
