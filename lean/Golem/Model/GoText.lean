/-
The Go text the hand-written models of pipe/queue.go (Model/Queue.lean) and of
`Seq` / `ToSeq` / `StdErr` (Model/Stages.lean `seqChan`, `toSeq`; the always-ready drain of the lock-step driver) were
written against: one trimmed line of gofmt-printed source per list element, comments dropped, annotated here with
the control point / model clause that line became.  go/xlate family `gotext` prints the same functions from the
working tree on every run (`Gen/PipeText.lean`); the `*_text` theorems of Props/C08Gen.lean, C05Gen.lean state the
equality.  This is a SYNTACTIC tie (no semantic translation exists for these functions): any edit breaks it and is then
judged by the enlarged lock-step search.  Core Lean only.
-/
namespace Golem.Model.GoText

def newq_text : List String := [
  "func newq[A any]() *queue[A] {",
  "queue := &queue[A]{}",
  "queue.pool.New = func() interface{} { return &q[A]{} }",
  "return queue",
  "}"]

def Seq_text : List String := [
  "func Seq[T any](xs ...T) <-chan T {",
  "out := make(chan T, len(xs))",
  "for _, x := range xs {",
  "out <- x",
  "}",
  "close(out)",
  "return out",
  "}"]

def ToSeq_text : List String := [
  "func ToSeq[T any](ch <-chan T) []T {",
  "seq := make([]T, 0)",
  "for x := range ch {",
  "seq = append(seq, x)",
  "}",
  "return seq",
  "}"]

def StdErr_text : List String := [
  "func StdErr[T any](out <-chan T, exx <-chan error) <-chan T {",
  "go func() {",
  "var err error",
  "for err = range exx {",
  "if err != nil {",
  "slog.Error(\"pipe stage failed.\", \"error\", err)",
  "}",
  "}",
  "}()",
  "return out",
  "}"]

end Golem.Model.GoText
