/-
Abstract lens algebra for C04 (core Lean only).

Go's `Lens[S, A]` is `Get(*S) A` / `Put(*S, A) *S`; `Put` mutates through the pointer and returns
it, which is modelled by state passing: `put : S → A → S`.

Hand-written mirrors (statement by statement) of the code that is not expression-bodied or that the
oracle needs without importing `Gen/`:
  `join.Put/Get`           optics/lens.go  (copy out, put inner into the copy, put the copy back)
  `lensM.Put/Get`          optics/lens.go  (Go map: nil map → panic on Put, zero value on Get)
  `morphism.Forward/Inverse` optics/iso.go (range loop, nil entries skipped)
and one-line specifications of the wrappers (`getter`, `setter`, `bimap`, `iso`, `shapePut/Get`), which
`Props/C04.lean` proves equal to the definitions regenerated from the source.
-/
namespace Golem.Model.Optics

structure Lens (S A : Type) where
  get : S → A
  put : S → A → S

/-- GetPut, PutGet, PutPut. -/
structure Lawful {S A : Type} (l : Lens S A) : Prop where
  get_put : ∀ s, l.put s (l.get s) = s
  put_get : ∀ s a, l.get (l.put s a) = a
  put_put : ∀ s a b, l.put (l.put s a) b = l.put s b

/-- Writing through `f` does not change what `g` reads. -/
def Preserves {S A B : Type} (f : Lens S A) (g : Lens S B) : Prop :=
  ∀ s a, g.get (f.put s a) = g.get s

structure Disjoint {S A B : Type} (f : Lens S A) (g : Lens S B) : Prop where
  left : Preserves f g
  right : Preserves g f

theorem Disjoint.symm {S A B : Type} {f : Lens S A} {g : Lens S B} (h : Disjoint f g) : Disjoint g f :=
  ⟨h.right, h.left⟩

/-- A lens of any focus type on `S` (for heterogeneous lists of component lenses). -/
structure AnyLens (S : Type) : Type 1 where
  {A : Type}
  lens : Lens S A

/-- One pending write: a lens together with the value to put. -/
structure Write (S : Type) : Type 1 where
  {A : Type}
  lens : Lens S A
  val : A

/-- Apply the writes first to last. -/
def writeAll {S : Type} : List (Write S) → S → S
  | [], s => s
  | w :: ws, s => writeAll ws (w.lens.put s w.val)

/-- Conversion `B(a)` between two Go types (named types over one underlying type, numeric kinds). -/
class GoConv (A B : Type) where
  conv : A → B

/-! ### `Join` — optics/lens.go:69-88 -/

def join {S A B : Type} (a : Lens S A) (b : Lens A B) : Lens S B where
  get s :=
    let va := a.get s          -- va := lens.a.Get(s)
    b.get va                   -- return lens.b.Get(&va)
  put s v :=
    let va := a.get s          -- va := lens.a.Get(s)
    let va := b.put va v       -- lens.b.Put(&va, b)
    let s := a.put s va        -- lens.a.Put(s, va)
    s                          -- return s

/-! ### wrapper specifications (iso.go:12-53, 113-132; shape.go) -/

def getter {S A B : Type} (l : Lens S A) (f : A → B) : Lens S B where
  get s := f (l.get s)
  put s _ := s

def setter {S A B : Type} [Inhabited B] (l : Lens S A) (f : B → A) : Lens S B where
  get _ := default
  put s b := l.put s (f b)

def bimap {S A B : Type} (l : Lens S A) (fmap : A → B) (cmap : B → A) : Lens S B where
  get s := fmap (l.get s)
  put s b := l.put s (cmap b)

/-- `Isomorphism[S, T]`: `Forward(*S, *T)` writes through `*T`, `Inverse(*T, *S)` through `*S`
(true of `iso` and `morphism`, the only implementations in the package). -/
structure Isomorphism (S T : Type) where
  forward : S → T → T
  inverse : T → S → S

def iso {S T A : Type} (sa : Lens S A) (ta : Lens T A) : Isomorphism S T where
  forward s t := ta.put t (sa.get s)
  inverse t s := sa.put s (ta.get t)

/-- shapeN.Put over same-typed components: `l₁.Put(l₂.Put(… lₙ.Put(s, vₙ) …, v₂), v₁)`. -/
def shapePut {S V : Type} : List (Lens S V × V) → S → S
  | [], s => s
  | (l, v) :: r, s => l.put (shapePut r s) v

def shapeGet {S V : Type} (ls : List (Lens S V)) (s : S) : List V := ls.map (·.get s)

/-! ### `morphism` — optics/iso.go:134-155 -/

namespace morphism

/-- `for _, iso := range seq { if iso != nil { iso.Forward(s, t) } }` -/
def forward {S T : Type} : List (Option (Isomorphism S T)) → S → T → T
  | [], _, t => t
  | none :: r, s, t => forward r s t
  | some i :: r, s, t => forward r s (i.forward s t)

/-- `for _, iso := range seq { if iso != nil { iso.Inverse(t, s) } }` -/
def inverse {S T : Type} : List (Option (Isomorphism S T)) → T → S → S
  | [], _, s => s
  | none :: r, t, s => inverse r t s
  | some i :: r, t, s => inverse r t (i.inverse t s)

end morphism

/-- `Morphism(seq...)` is again an `Isomorphism`. -/
def morphismOf {S T : Type} (seq : List (Option (Isomorphism S T))) : Isomorphism S T where
  forward := morphism.forward seq
  inverse := morphism.inverse seq

/-! ### `lensM` — optics/lens.go:54-67 -/

inductive Panic where
  | nilMap
  deriving DecidableEq, Repr

/-- A Go map value: `none` is the nil map. -/
abbrev GoMap (K V : Type) := Option (K → Option V)

/-- `m[k]`: zero value when the map is nil or the key is absent. -/
def GoMap.lookup {K V : Type} [Inhabited V] (m : GoMap K V) (k : K) : V :=
  match m with
  | none => default
  | some f => (f k).getD default

/-- presence of a key (`_, ok := m[k]`) -/
def GoMap.has {K V : Type} (m : GoMap K V) (k : K) : Bool :=
  match m with
  | none => false
  | some f => (f k).isSome

namespace lensM

/-- `(*s)[lens.key] = a; return s` — assignment to an entry of a nil map panics. -/
def put {K V : Type} [DecidableEq K] (key : K) (s : GoMap K V) (a : V) : Except Panic (GoMap K V) :=
  match s with
  | none => throw .nilMap
  | some f => pure (some (fun k => if k = key then some a else f k))

/-- `return (*s)[lens.key]` -/
def get {K V : Type} [Inhabited V] (key : K) (s : GoMap K V) : V := s.lookup key

end lensM

/-! ### a record of `n` cells (non-vacuity witnesses) -/

def cell {n : Nat} {V : Type} (i : Fin n) : Lens (Fin n → V) V where
  get s := s i
  put s a := fun j => if j = i then a else s j

end Golem.Model.Optics
