/-
Hand-written stage configurations: what `make`, `go` and `close` say in each consumer stage of
`pipe/pipe.go` and `pipe/fork/fork.go`, written next to the Go text they mirror.  The lock-step
oracle builds its pools from these (`Cfg.pool`), the `*_cfg_gen` theorems (Props/Stage/*.lean) prove
the configurations regenerated from the source on every run equal to them, and the network
theorems (generic in capacities and close order) are instantiated at them.

Output numbering: the channels a stage returns, in return order, then the internal ones
(`vals` of `fork.Fold`).  Core Lean only.
-/
import Golem.Model.StageDSL
import Golem.Model.Stages
namespace Golem.Model
open Golem.Go Golem.Model.DSL

namespace DSL

/-- the `Stage` data of a translated loop body -/
def mkStage {σ α β : Type} (body : α → BodyM σ β Unit) (final : σ → List (Nat × β)) : Stage σ α β :=
  ⟨fun s a => runBody (body a) s, final⟩

/-- number of worker goroutines -/
def Cfg.nW (c : Cfg) (par nIn : Nat) : Nat :=
  match c.workers with
  | .one => 1
  | .par => par
  | .perInput => nIn

/-- which input worker `i` ranges over -/
def Cfg.inp (c : Cfg) : Nat → Nat :=
  match c.workers with
  | .perInput => id
  | _ => fun _ => 0

/-- the initial network of a stage: workers idle in local state `s0`, channels as `make` sized them,
the outputs to be closed in `closes` order once every worker is gone (deferred closes of the single
worker, or the closer goroutine after `wg.Wait()`) -/
def Cfg.pool {σ α β : Type} (c : Cfg) (s0 : σ) (inCap : Nat → Nat) (par nIn : Nat) (errch : Nat → Nat) (gated : Bool) :
    Pool σ α β :=
  Pool.init (c.nW par nIn) c.inp s0 inCap (fun k => (c.caps (inCap 0) par nIn errch).getD k 0) c.closes gated

/-- a one-goroutine stage is a `pipePool` -/
theorem Cfg.pool_one {σ α β : Type} (c : Cfg) (h : c.workers = .one) (s0 : σ) (inCap par nIn : Nat) (errch : Nat → Nat) (g : Bool) :
    (c.pool s0 (fun _ => inCap) par nIn errch g : Pool σ α β)
      = pipePool s0 inCap (fun k => (c.caps inCap par nIn errch).getD k 0) c.closes g := by
  simp [Cfg.pool, Cfg.nW, Cfg.inp, pipePool, h]

/-- a `par`-goroutine stage is a `forkPool` -/
theorem Cfg.pool_par {σ α β : Type} (c : Cfg) (h : c.workers = .par) (s0 : σ) (inCap par nIn : Nat) (errch : Nat → Nat) (g : Bool) :
    (c.pool s0 (fun _ => inCap) par nIn errch g : Pool σ α β)
      = forkPool s0 par inCap (fun k => (c.caps inCap par nIn errch).getD k 0) c.closes g := by
  simp [Cfg.pool, Cfg.nW, Cfg.inp, forkPool, h]

end DSL

namespace StageCfg

/-- `errch` of `pure`/`puref` (Pure, Lift, LiftF): `make(chan error, 1)`; of `try`/`tryf`: `make(chan error, cap)` -/
def errch : ErrMode → Nat → Nat
  | .lift => fun _ => 1
  | .try_ => fun cap => cap

/-! ### package pipe: one goroutine, deferred closes (LIFO) -/

/-- `out := make(chan B, cap(in)); exx := f.errch(cap(in)); defer close(out); defer close(exx)` -/
def pipeMap : Cfg := { workers := .one, closer := .deferred, caps := fun c _ _ e => [c, e c], closes := [1, 0] }
def pipeFMap : Cfg := pipeMap
/-- `out := make(chan A, cap(in)); defer close(out)` -/
def pipeFilter : Cfg := { workers := .one, closer := .deferred, caps := fun c _ _ _ => [c], closes := [0] }
def pipeTakeWhile : Cfg := pipeFilter
def pipeTake : Cfg := pipeFilter
/-- `lout, rout := make(chan A, cap(in)) ×2; defer close(rout); defer close(lout)` -/
def pipePartition : Cfg := { workers := .one, closer := .deferred, caps := fun c _ _ _ => [c, c], closes := [0, 1] }
/-- `done := make(chan struct{}); defer close(done)` -/
def pipeForEach : Cfg := { workers := .one, closer := .deferred, caps := fun _ _ _ _ => [0], closes := [0] }
def pipeVoid : Cfg := pipeForEach
/-- `done := make(chan A, 1); defer func() { done <- acc; close(done) }()` -/
def pipeFold : Cfg := { workers := .one, closer := .deferred, caps := fun _ _ _ _ => [1], closes := [0] }
/-- `out := make(chan A, len(in)); wg.Add(len(in)); for _, c := range in { go join(c) }; go func() { wg.Wait(); close(out) }()` -/
def pipeJoin : Cfg := { workers := .perInput, closer := .waitGroup, caps := fun _ _ k _ => [k], closes := [0] }

/-! ### package fork: `par` goroutines, closer after `wg.Wait()` (source order) -/

/-- `out := make(chan B, par); exx := make(chan error, par); … close(out); close(exx)` -/
def forkMap : Cfg := { workers := .par, closer := .waitGroup, caps := fun _ p _ _ => [p, p], closes := [0, 1] }
def forkFMap : Cfg := forkMap
def forkPartition : Cfg := forkMap
def forkFilter : Cfg := { workers := .par, closer := .waitGroup, caps := fun _ p _ _ => [p], closes := [0] }
def forkForEach : Cfg := { workers := .par, closer := .waitGroup, caps := fun _ _ _ _ => [0], closes := [0] }
def forkVoid : Cfg := forkForEach
/-- `vals := make(chan A, par); done := make(chan A, 1)`; returned: `done` (0); internal: `vals` (1);
the collector closes `vals`, then `done` -/
def forkFold : Cfg := { workers := .par, closer := .waitGroup, caps := fun _ p _ _ => [1, p], closes := [1, 0] }
/-- the collector goroutine of `fork.Fold` after `wg.Wait()` (the control points of `Go/ForkFold.Coll`) -/
def forkFoldCollector : List CollOp := [.accEmpty, .foldRecvPar 1, .sendAcc 0, .close 1, .close 0]

/-- `pipe.Join` over `k` inputs is the `joinPool` of Props/C12 -/
theorem pipeJoin_pool {α : Type} (k : Nat) (inCap : Nat → Nat) (par : Nat) (errch : Nat → Nat) :
    (pipeJoin.pool () inCap par k errch false : Pool Unit α α) = joinPool k inCap := by
  simp [Cfg.pool, Cfg.nW, Cfg.inp, joinPool, pipeJoin]

end StageCfg
end Golem.Model
