/-
Model of Go types and of the gc/amd64 memory layout (core Lean only).

`GoType` describes the types the generator can produce; `size`, `align` and the
field offsets follow cmd/compile/internal/types.CalcStructSize / calcStructOffset:

  * fields are placed sequentially, each at `alignUp cur (align field)`;
  * struct alignment = max field alignment (at least 1);
  * a struct of non-zero size whose last field has size zero gets ONE extra byte;
  * the total is rounded up to the struct alignment;
  * `[n]T` has size `n * size T` and the alignment of `T` (so `[0]T` has size 0, T's alignment).

Modelled, not verified: validated on every run against `unsafe.Sizeof/Alignof/Offsetof`
of the real compiler by the layout harness (checks/C03.py).
-/
namespace Golem.Model

/-- Basic kinds (amd64). -/
inductive Prim where
  | bool | int8 | int16 | int32 | int64 | uint8 | uint16 | uint32 | uint64
  | int | uint | uintptr | float32 | float64 | complex64 | complex128
  | string | iface | unsafeptr
  deriving DecidableEq, Repr

mutual
/-- Go types. `named id u` is a defined type with underlying type `u`;
`func sig` carries the printed signature (all func values are one word). -/
inductive GoType where
  | prim (p : Prim)
  | slice (t : GoType)
  | ptr (t : GoType)
  | map (k v : GoType)
  | chan (t : GoType)
  | func (sig : String)
  | array (n : Nat) (t : GoType)
  | struct (fs : Fields)
  | named (id : String) (u : GoType)
  deriving DecidableEq, Repr
/-- Struct fields in declaration order: name, embedded flag, tag, type. -/
inductive Fields where
  | nil
  | cons (name : String) (emb : Bool) (tag : String) (t : GoType) (rest : Fields)
  deriving DecidableEq, Repr
end

/-- `reflect.Kind`, as far as hseq looks at it. -/
inductive Kind where
  | prim (p : Prim) | slice | ptr | map | chan | func | array | struct
  deriving DecidableEq, Repr

/-- `reflect.Type.Kind()` looks through defined types. -/
def GoType.kind : GoType → Kind
  | .prim p => .prim p
  | .slice _ => .slice
  | .ptr _ => .ptr
  | .map _ _ => .map
  | .chan _ => .chan
  | .func _ => .func
  | .array _ _ => .array
  | .struct _ => .struct
  | .named _ u => u.kind

/-- `reflect.Type.Elem()` of a pointer type (identity on anything else; callers guard by kind). -/
def GoType.elem : GoType → GoType
  | .ptr t => t
  | .named _ u => u.elem
  | t => t

/-- Round `n` up to a multiple of `a`. -/
def alignUp (n a : Nat) : Nat := (n + a - 1) / a * a

def Prim.size : Prim → Nat
  | .bool | .int8 | .uint8 => 1
  | .int16 | .uint16 => 2
  | .int32 | .uint32 | .float32 => 4
  | .int64 | .uint64 | .int | .uint | .uintptr | .float64 | .complex64 | .unsafeptr => 8
  | .complex128 | .string | .iface => 16

def Prim.align : Prim → Nat
  | .bool | .int8 | .uint8 => 1
  | .int16 | .uint16 => 2
  | .int32 | .uint32 | .float32 | .complex64 => 4
  | _ => 8

mutual
def GoType.align : GoType → Nat
  | .prim p => p.align
  | .slice _ | .ptr _ | .map _ _ | .chan _ | .func _ => 8
  | .array _ t => t.align
  | .struct fs => fs.maxAlign
  | .named _ u => u.align
def Fields.maxAlign : Fields → Nat
  | .nil => 1
  | .cons _ _ _ t r => max t.align r.maxAlign
end

mutual
def GoType.size : GoType → Nat
  | .prim p => p.size
  | .slice _ => 24
  | .ptr _ | .map _ _ | .chan _ | .func _ => 8
  | .array n t => n * t.size
  | .struct fs =>
    let e := fs.endOff 0
    alignUp (if e > 0 && fs.lastZero then e + 1 else e) fs.maxAlign
  | .named _ u => u.size
/-- Offset just past the last field when placement starts at `cur` (calcStructOffset). -/
def Fields.endOff : Fields → Nat → Nat
  | .nil, cur => cur
  | .cons _ _ _ t r, cur => r.endOff (alignUp cur t.align + t.size)
/-- Does the last field have size zero? -/
def Fields.lastZero : Fields → Bool
  | .nil => false
  | .cons _ _ _ t .nil => t.size == 0
  | .cons _ _ _ _ r => r.lastZero
end

/-- What `reflect.StructField` says about a field (without the offset). -/
structure FieldDecl where
  name : String
  emb : Bool
  tag : String
  type : GoType
  deriving DecidableEq, Repr

def Fields.toList : Fields → List FieldDecl
  | .nil => []
  | .cons n e tg t r => ⟨n, e, tg, t⟩ :: r.toList

/-- Offsets of the fields when placement starts at `cur`. -/
def Fields.offsetsFrom : Fields → Nat → List Nat
  | .nil, _ => []
  | .cons _ _ _ t r, cur => alignUp cur t.align :: r.offsetsFrom (alignUp cur t.align + t.size)

/-- `unsafe.Offsetof` of every field. -/
def Fields.offsets (fs : Fields) : List Nat := fs.offsetsFrom 0

/-- The fields of a struct type (looking through defined types), `none` for non-structs. -/
def GoType.fields? : GoType → Option Fields
  | .struct fs => some fs
  | .named _ u => u.fields?
  | _ => none

/-- Selector path `s.f₁.f₂…` given by field indices; every step but the last goes into a
struct held BY VALUE.  Result: byte offset from the start of `t` and the type reached.
This is the layout function's own account of where a field lives. -/
def pathLookup : GoType → List Nat → Option (Nat × GoType)
  | t, [] => some (0, t)
  | t, i :: π =>
    match t.fields? with
    | none => none
    | some fs =>
      match fs.toList[i]?, fs.offsets[i]? with
      | some f, some o =>
        match pathLookup f.type π with
        | some (o', t') => some (o + o', t')
        | none => none
      | _, _ => none

def pathOffset (t : GoType) (π : List Nat) : Option Nat := (pathLookup t π).map (·.1)
def pathType (t : GoType) (π : List Nat) : Option GoType := (pathLookup t π).map (·.2)

end Golem.Model
