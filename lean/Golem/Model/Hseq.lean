/-
Model of /repo/hseq/hseq.go (core Lean only), mirroring the Go control flow.

  Go                                         here
  ----------------------------------------   ------------------------------------------
  type Type[T]{StructField,RootOffs,…}       `Entry`
  Type.FieldKey                              `Entry.fieldKey` (+ `tagLookup` = reflect.StructTag.Get)
  unfold(cat, seq, offset)                   `unfoldFields` / `unfoldInto` / `unfold`
  New[T](names...)                           `hseqNew`
  New1..New9                                 `newN` (list of witness types)
  ForType / ForName / ForNameMaybe           `forType` / `forName` / `forNameMaybe`
  FMap1..FMap9                               `fmapN` (list of functions)
  panic(errType{…})                          `throw .errType`
  cat.NumField() on a non-struct             `throw .reflect`
  ts[k] out of range, attr[0:k] too short    `throw .index`, `throw .slice`

`reflect`'s description of a struct (`cat.Field(i)`: name, Anonymous, tag, type, Offset) is
taken from `Model/Layout` (`Fields` and the gc offsets): modelled, validated by the harness.
-/
import Golem.Model.Layout
namespace Golem.Model

/-- Canonical panic classes (the harness maps recovered values to the same enum). -/
inductive Panic where
  | errType   -- hseq.errType (ForType / ForName found nothing)
  | error     -- fmt.Errorf value (optics type guard, Reflector dynamic type)
  | index     -- runtime error: index out of range
  | slice     -- runtime error: slice bounds out of range
  | reflect   -- reflect: NumField of non-struct type
  deriving DecidableEq, Repr

def Panic.str : Panic → String
  | .errType => "panic:errType"
  | .error => "panic:error"
  | .index => "panic:index"
  | .slice => "panic:slice"
  | .reflect => "panic:reflect"

/-- `hseq.Type[T]`: the embedded `reflect.StructField` (`field`, `offset`), `RootOffs`, `PureType`, `ID`. -/
structure Entry where
  field : FieldDecl
  offset : Nat
  rootOffs : Nat
  pureType : GoType
  id : Nat
  deriving DecidableEq, Repr

/-! ### reflect.StructTag.Get

One pass over the tag with the states of `StructTag.Lookup`'s loop.  Backslash escapes inside a
quoted value are outside the fragment the generator produces; they end the scan (`none`). -/

inductive TagSt where
  | start                                   -- skipping spaces before a key
  | key (acc : List Char)                   -- scanning the key up to ':'
  | colon (k : List Char)                   -- saw ':', expect '"'
  | value (k : List Char) (acc : List Char) -- inside the quoted value

def keyChar (c : Char) : Bool := c > ' ' && c != ':' && c != '"' && c != Char.ofNat 0x7f

def tagScan (want : List Char) : TagSt → List Char → Option (List Char)
  | _, [] => none
  | .start, c :: cs =>
    if c == ' ' then tagScan want .start cs
    else if keyChar c then tagScan want (.key [c]) cs else none
  | .key acc, c :: cs =>
    if keyChar c then tagScan want (.key (acc ++ [c])) cs
    else if c == ':' then tagScan want (.colon acc) cs else none
  | .colon k, c :: cs => if c == '"' then tagScan want (.value k []) cs else none
  | .value k acc, c :: cs =>
    if c == '"' then (if k == want then some acc else tagScan want .start cs)
    else if c == '\\' then none
    else tagScan want (.value k (acc ++ [c])) cs

/-- `tag.Get(key)` ("" when absent). -/
def tagGet (tag key : String) : String :=
  match tagScan key.toList .start tag.toList with
  | some v => String.ofList v
  | none => ""

/-- `strings.Split(s, ",")[0]`. -/
def firstComma (s : String) : String := String.ofList (s.toList.takeWhile (· != ','))

/-- `Type.FieldKey()`. -/
def Entry.fieldKey (e : Entry) : String :=
  let tag := firstComma (tagGet e.field.tag "hseq")
  if tag != "" then tag else e.field.name

/-! ### unfold -/

/-- `ft := cat.Field(i).Type; if ft.Kind() == reflect.Ptr { ft = ft.Elem() }`. -/
def derefOnce (t : GoType) : GoType := if t.kind = .ptr then t.elem else t

mutual
/-- The recursive call `unfold(ft, seq, offset)` where `ft` is `t` after at most one pointer
dereference (`deref = true` while the dereference is still available).  Written on `t` rather
than on `derefOnce t` so that the recursion is structural; `unfoldInto_eq` (Lemmas/Hseq) shows it
is `unfoldFields` of the fields of `derefOnce t` whenever the guard `ft.Kind() == Struct` holds. -/
def unfoldInto : GoType → Bool → List Entry → Nat → List Entry
  | .ptr u, true, seq, off => unfoldInto u false seq off
  | .named _ u, d, seq, off => unfoldInto u d seq off
  | .struct fs, _, seq, off => unfoldFields fs 0 seq off
  | _, _, seq, _ => seq
/-- The loop `for i := 0; i < cat.NumField(); i++` of `unfold`; `cur` is where the layout places
the next field (so `fv.Offset = alignUp cur (align t)`), `seq` the accumulator, `offset` the
`offset` argument. -/
def unfoldFields : Fields → Nat → List Entry → Nat → List Entry
  | .nil, _, seq, _ => seq
  | .cons n e tg t rest, cur, seq, offset =>
    let fvOffset := alignUp cur t.align
    let ft := derefOnce t
    let entry : Entry :=
      { field := ⟨n, e, tg, t⟩, offset := fvOffset, rootOffs := offset, pureType := ft, id := seq.length }
    let seq' :=
      if e && ft.kind = .struct then
        unfoldInto t true (seq ++ [entry]) (offset + fvOffset)
      else
        seq ++ [entry]
    unfoldFields rest (fvOffset + t.size) seq' offset
end

/-- `unfold(cat, seq, offset)`; `cat.NumField()` panics inside reflect when `cat` is no struct. -/
def unfold (cat : GoType) (seq : List Entry) (offset : Nat) : Except Panic (List Entry) :=
  match cat.fields? with
  | some fs => .ok (unfoldFields fs 0 seq offset)
  | none => .error .reflect

/-! ### lookups -/

/-- `ForName`: first entry whose `FieldKey()` equals `field`, else `panic(errType)`. -/
def forName : List Entry → String → Except Panic Entry
  | [], _ => .error .errType
  | f :: rest, field => if f.fieldKey == field then .ok f else forName rest field

/-- `ForNameMaybe`. -/
def forNameMaybe : List Entry → String → Option Entry
  | [], _ => none
  | f :: rest, field => if f.fieldKey == field then some f else forNameMaybe rest field

/-- `ForType[A]`: first entry whose field type is identical to the witness type.  Go tests
`ft.String() == val.String() && ft.AssignableTo(val)`.  The equality of `GoType`s below stands for that
CONJUNCTION, i.e. for type identity: a defined type is identified by the `id` of `GoType.named id u`
(import path + name, e.g. `pa/v1.ID`), not by what `String()` prints (`v1.ID`).  The printed name alone
does not identify a type, and the harness generates such types on purpose: the packages `harness/pa/v1`,
`harness/pb/v1`, `harness/pc/v1` share their package name and type names, so `pa/v1.ID` and `pb/v1.ID`
(and `[]v1.ID`, `*v1.ID`, `map[string]v1.ID`, … built from them) are distinct `GoType`s with the same
`String()`; a shape lists one of them as a decoy before the other.  `AssignableTo` then decides: between two
defined types, and between composite types whose element types differ, it holds only for identical types
(no interface or channel kinds among the generated same-printing types, where it is wider). -/
def forType : List Entry → GoType → Except Panic Entry
  | [], _ => .error .errType
  | f :: rest, val => if f.field.type = val then .ok f else forType rest val

/-- Run `f` over a list left to right, stopping at the first panic. -/
def mapE {α β : Type} (f : α → Except Panic β) : List α → Except Panic (List β)
  | [] => .ok []
  | a :: as =>
    match f a with
    | .error p => .error p
    | .ok b =>
      match mapE f as with
      | .error p => .error p
      | .ok bs => .ok (b :: bs)

/-- `New[T](names...)`. -/
def hseqNew (T : GoType) (names : List String) : Except Panic (List Entry) :=
  let cat := if T.kind = .ptr then T.elem else T
  match unfold cat [] 0 with
  | .error p => .error p
  | .ok seq => if names.isEmpty then .ok seq else mapE (forName seq) names

/-- `New1..New9[T, A…]`: `seq := New[T]()` then `Seq[T]{ForType[A](seq), ForType[B](seq), …}`. -/
def newN (T : GoType) (witnesses : List GoType) : Except Panic (List Entry) :=
  match hseqNew T [] with
  | .error p => .error p
  | .ok seq => mapE (forType seq) witnesses

/-- `ts[k]`. -/
def index {α : Type} (ts : List α) (k : Nat) : Except Panic α :=
  match ts[k]? with
  | some x => .ok x
  | none => .error .index

/-- `FMap1..FMap9`: `return fa(ts[0]), fb(ts[1]), …` evaluated left to right; `k` is the index
of the first function. -/
def fmapFrom {β : Type} (ts : List Entry) : Nat → List (Entry → Except Panic β) → Except Panic (List β)
  | _, [] => .ok []
  | k, f :: fs =>
    match index ts k with
    | .error p => .error p
    | .ok x =>
      match f x with
      | .error p => .error p
      | .ok b =>
        match fmapFrom ts (k + 1) fs with
        | .error p => .error p
        | .ok bs => .ok (b :: bs)

def fmapN {β : Type} (ts : List Entry) (fs : List (Entry → Except Panic β)) : Except Panic (List β) :=
  fmapFrom ts 0 fs

/-- `attr[0:n]` on a slice whose capacity equals its length (variadic call with explicit arguments). -/
def sliceTo {α : Type} (xs : List α) (n : Nat) : Except Panic (List α) :=
  if n ≤ xs.length then .ok (xs.take n) else .error .slice

end Golem.Model
