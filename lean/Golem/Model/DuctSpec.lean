/-
Specification side of C16 (core Lean only), written without reference to `Ast.append`,
`Ast.unit` or `Ast.apply`:

* `Stack` / `Spec.step` / `Spec.run` — a stack machine of open contexts (a zipper: the children
  built so far of the innermost open context on top, the enclosing open contexts below it) and
  `Stack.reify`, the tree a machine state stands for;
* `events` — the callback sequence of a complete visit (enter, children one level deeper, leave);
* `feed` — what it means to hand a callback sequence to a visitor one by one until the first error;
* `Bracketed` / `DepthsOk` — stack checkers for well-bracketedness and for child depths;
* `leaves` — the non-Seq nodes of a tree in visiting order.
-/
import Golem.Model.Duct
namespace Golem.Model.Duct

/-! ## The stack machine -/

/-- Open contexts.  `top` are the children built so far of the innermost open context; `below`
lists the enclosing open contexts (their children so far), innermost first — its last entry is the
root morphism; when `below = []` the root itself is the innermost open context. -/
structure Stack where
  top : List Ast
  below : List (List Ast)
deriving Repr, Inhabited

/-- Close the zipper up: an open nested context is `AstSeq{Root:false, Deferred:true}` sitting as
the last child of the context that encloses it; the outermost context is the root
`AstSeq{Root:true, Deferred:true}`. -/
def plug : List Ast → List (List Ast) → Ast
  | cs, [] => .aseq true true cs
  | cs, p :: rest => plug (p ++ [.aseq false true cs]) rest

def Stack.reify (s : Stack) : Ast := plug s.top s.below

/-- A finished node lands in the innermost open context. -/
def Stack.push (s : Stack) (n : Ast) : Stack := { s with top := s.top ++ [n] }

/-- A new nested context (with initial children `init`) is opened inside the innermost open one. -/
def Stack.opn (s : Stack) (init : List Ast) : Stack := { top := init, below := s.top :: s.below }

/-- The innermost open *nested* context is closed (`Deferred:false`) and becomes a finished child
of the context enclosing it.  When only the root is open nothing changes: the root stays
`Deferred:true` (ast.go: `if !f.Root { f.Deferred = false }`). -/
def Stack.close (s : Stack) : Stack :=
  match s.below with
  | [] => s
  | p :: rest => { top := p ++ [.aseq false false s.top], below := rest }

namespace Spec

def init (A : Ty) : Stack := { top := [.afrom (typeName A)], below := [] }

def step (s : Stack) : Step → Stack
  | .join B C => s.push (.amap (typeName B) (typeName C))
  | .liftF B C => s.opn [.amap (typeName B) (typeName C)]
  | .wrapF _ => s.opn []
  | .unit _ => s.close
  | .yield B => s.push (.ayield (typeName B))

def run (A : Ty) (steps : List Step) : Stack := steps.foldl step (init A)

/-- Number of open nested contexts. -/
def nesting (s : Stack) : Nat := s.below.length

/-- The non-Seq node a step declares (`none`: the step declares no such node). -/
def leafOf : Step → Option Ast
  | .join B C => some (.amap (typeName B) (typeName C))
  | .liftF B C => some (.amap (typeName B) (typeName C))
  | .wrapF _ => none
  | .unit _ => none
  | .yield B => some (.ayield (typeName B))

/-- The element type of a slice type. -/
def elem : Ty → Ty
  | .slice t => t
  | t => t

/-- The non-Seq nodes named after the types that *flow through* a well-typed chain: `cur` is the
`B` of the current `Morphism[A, B]`. -/
def typedLeaves (cur : Ty) : List Step → List Ast
  | [] => []
  | .join _ C :: rest => .amap (typeName cur) (typeName C) :: typedLeaves C rest
  | .liftF _ C :: rest => .amap (typeName (elem cur)) (typeName C) :: typedLeaves C rest
  | .wrapF _ :: rest => typedLeaves (elem cur) rest
  | .unit _ :: rest => typedLeaves (.slice cur) rest
  | .yield _ :: rest => .ayield (typeName cur) :: typedLeaves Void rest

end Spec

/-! ## Visits -/

mutual
/-- The callbacks of a complete visit of `node` at `depth`, in order. -/
def events : Nat → Ast → List Event
  | d, .afrom t => [⟨.enterFrom, d, .afrom t⟩, ⟨.leaveFrom, d, .afrom t⟩]
  | d, .ayield t => [⟨.enterYield, d, .ayield t⟩, ⟨.leaveYield, d, .ayield t⟩]
  | d, .amap a b => [⟨.enterMap, d, .amap a b⟩, ⟨.leaveMap, d, .amap a b⟩]
  | d, .aseq root deferred seq =>
    ⟨if root then .enterMorphism else .enterSeq, d, .aseq root deferred seq⟩ ::
      (eventsList (d + 1) seq ++
        [⟨if root then .leaveMorphism else .leaveSeq, d, .aseq root deferred seq⟩])
def eventsList : Nat → List Ast → List Event
  | _, [] => []
  | d, x :: xs => events d x ++ eventsList d xs
end

/-- Hand the callbacks to the visitor one at a time; stop at the first error and return it. -/
def feed {σ ε : Type} (v : Visitor σ ε) : List Event → σ → σ × Option ε
  | [], s => (s, none)
  | e :: es, s =>
    match v e s with
    | (s, some err) => (s, some err)
    | (s, none) => feed v es s

def Cb.isEnter : Cb → Bool
  | .enterMorphism | .enterSeq | .enterMap | .enterFrom | .enterYield => true
  | _ => false

/-- The leave callback that belongs to an enter callback. -/
def Cb.leaveOf : Cb → Cb
  | .enterMorphism => .leaveMorphism
  | .enterSeq => .leaveSeq
  | .enterMap => .leaveMap
  | .enterFrom => .leaveFrom
  | .enterYield => .leaveYield
  | c => c

def Cb.isSeqKind : Cb → Bool
  | .enterMorphism | .enterSeq => true
  | _ => false

/-- A leave event matches the enter event `t` on top of the checker's stack: same node kind, same
depth, same node. -/
def Event.closes (t e : Event) : Prop :=
  t.cb.leaveOf = e.cb ∧ t.depth = e.depth ∧ t.node = e.node

/-- Stack checker for well-bracketed traces.  `stk` holds the enter events not yet left, innermost
first.  An enter event is pushed; a leave event must match the innermost pending enter event, which
is popped; at the end nothing may be pending. -/
def Bracketed : List Event → List Event → Prop
  | stk, [] => stk = []
  | stk, e :: es =>
    if e.cb.isEnter then Bracketed (e :: stk) es
    else match stk with
      | [] => False
      | t :: stk' => t.closes e ∧ Bracketed stk' es

/-- Depth checker.  Every enter event happens one level deeper than the innermost node that is
entered and not yet left (its parent), and that parent is a morphism or a nested Seq; an enter event
with no pending parent is at the starting depth `d0`. -/
def DepthsOk (d0 : Nat) : List Event → List Event → Prop
  | _, [] => True
  | stk, e :: es =>
    if e.cb.isEnter then
      (match stk with
        | [] => e.depth = d0
        | t :: _ => e.depth = t.depth + 1 ∧ t.cb.isSeqKind = true) ∧ DepthsOk d0 (e :: stk) es
    else DepthsOk d0 stk.tail es

/-! ## Shape observations -/

mutual
/-- The non-Seq nodes in visiting order. -/
def leaves : Ast → List Ast
  | .aseq _ _ seq => leavesList seq
  | a => [a]
def leavesList : List Ast → List Ast
  | [] => []
  | x :: xs => leaves x ++ leavesList xs
end

mutual
/-- No `AstSeq` with `Root:true` anywhere in the node. -/
def Ast.noRoot : Ast → Bool
  | .aseq root _ seq => !root && noRootList seq
  | _ => true
def noRootList : List Ast → Bool
  | [] => true
  | x :: xs => x.noRoot && noRootList xs
end

/-- An `AstSeq` that is still open for appends. -/
def Ast.isOpen : Ast → Bool
  | .aseq _ deferred _ => deferred
  | _ => false

end Golem.Model.Duct
