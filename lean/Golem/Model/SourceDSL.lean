/-
Loop bodies of the SOURCE and PACED stages (`pipe.Emit`, `pipe.Unfold`, the two goroutines of
`pipe.Throttling`): target language of the `sources` translator (go/xlate/sources.go) and the
hand-written per-iteration specifications the network models `Go/Sources.lean` and `Go/Throttle.lean`
implement control point by control point.

Same shape as `Model/StageDSL.lean`, with the additional actions these goroutines perform:

  time.Sleep(d)                                                     `sleep d`
  select { case <-ch: case <-ctx.Done(): return }                   `recvSel ch`
  select { case <-time.After(d): case <-ctx.Done(): return }        `afterSel d`
  for i := 0; i < n; i++ { B }                                      `forN n B`  (a `return` inside B leaves the goroutine)

`runBody` gives, for one iteration of the goroutine's outer loop, the new loop-carried state, the
actions performed in order, and how the iteration ends.  The theorems `*_iter_gen` (Props/Stage/Pipe*.lean)
prove the regenerated bodies EQUAL — as functions, not as text — to `emitIter`, `unfoldIter`,
`pacerIter`, `dataIter` below, which are written next to the control points of the network models:

  Emit     eLoop i → eSleep → eApply → eOffer i v | eCatch i e       = emitIter
  Unfold   uOffer s → uApply s → (uCatch s' e)                        = unfoldIter
  pacer    push 0 … push (ops-1) → wait                               = pacerIter
  data     idle → gate a → fwd a                                      = dataIter

Core Lean only.
-/
import Golem.Model.StageCfg
namespace Golem.Model.DSLT
open Golem.Go Golem.Model

inductive Act (β : Type) where
  | sleep (d : Nat)
  | send (ch : Nat) (v : β) (m : Mode)
  | recvSel (ch : Nat)
  | afterSel (d : Nat)

structure BS (σ β : Type) where
  s : σ
  acts : List (Act β)
  /-- ghost: calls of the user-supplied function so far -/
  calls : Nat := 0

def BodyT (σ β X : Type) : Type := BS σ β → BS σ β × Except After X

variable {σ β X Y : Type}

@[inline] def BodyT.pure (x : X) : BodyT σ β X := fun b => (b, .ok x)
@[inline] def BodyT.bind (m : BodyT σ β X) (f : X → BodyT σ β Y) : BodyT σ β Y := fun b =>
  match m b with
  | (b', .ok x) => f x b'
  | (b', .error a) => (b', .error a)

instance : Monad (BodyT σ β) where
  pure := BodyT.pure
  bind := BodyT.bind

def act (a : Act β) : BodyT σ β Unit := fun b => ({ b with acts := b.acts ++ [a] }, .ok ())
def selSend (ch : Nat) (v : β) : BodyT σ β Unit := act (.send ch v .sel)
def plainSend (ch : Nat) (v : β) : BodyT σ β Unit := act (.send ch v .plain)
def sleep (d : Nat) : BodyT σ β Unit := act (.sleep d)
def recvSel (ch : Nat) : BodyT σ β Unit := act (.recvSel ch)
def afterSel (d : Nat) : BodyT σ β Unit := act (.afterSel d)
/-- the results of ONE call of the user-supplied function (counted) -/
def applyF {γ : Type} (r : γ) : BodyT σ β γ := fun b => ({ b with calls := b.calls + 1 }, .ok r)
def ret : BodyT σ β X := fun b => (b, .error .stop)
def next : BodyT σ β X := fun b => (b, .error .cont)
def getS : BodyT σ β σ := fun b => (b, .ok b.s)
def setS (s : σ) : BodyT σ β Unit := fun b => ({ b with s := s }, .ok ())

/-- `for i := 0; i < n; i++ { B }` -/
def forN : Nat → BodyT σ β Unit → BodyT σ β Unit
  | 0, _ => BodyT.pure ()
  | n + 1, b => BodyT.bind b fun _ => forN n b

def runBody (m : BodyT σ β Unit) (s : σ) : σ × List (Act β) × After :=
  match m { s := s, acts := [] } with
  | (b, .ok _) => (b.s, b.acts, .cont)
  | (b, .error a) => (b.s, b.acts, a)

def callsOf (m : BodyT σ β Unit) (s : σ) : Nat := (m { s := s, acts := [] }).1.calls

/-! ### hand-written per-iteration specifications -/

variable {α ε : Type}

/-- `catch` as an action: plain send for fail-fast, `select` with `ctx.Done` for try (function.go) -/
def catchAct (m : ErrMode) (e : ε) : Act (β ⊕ ε) :=
  match m with
  | .lift => .send 1 (.inr e) .plain
  | .try_ => .send 1 (.inr e) .sel

/-- Emit, iteration `i` (the loop-carried state is unused; `i++` is the loop's post statement):
sleep one tick, call `f(i)`, hand the value to `out` under select — or the error to `catch` -/
def emitIter (m : ErrMode) (freq : Nat) (f : Nat → β × Option ε) (i : Nat) : List (Act (β ⊕ ε)) × After :=
  match (f i).2 with
  | none => ([.sleep freq, .send 0 (.inl (f i).1) .sel], .cont)
  | some e => ([.sleep freq, catchAct m e], catchAfter m)

/-- Unfold, one iteration from `seed`: offer `seed`, then `seed, err = f.Apply(seed)` (the value is assigned
even when the call fails), then `catch` on failure -/
def unfoldIter (m : ErrMode) (f : α → α × Option ε) (seed : α) : α × List (Act (α ⊕ ε)) × After :=
  match (f seed).2 with
  | none => ((f seed).1, [.send 0 (.inl seed) .sel], .cont)
  | some e => ((f seed).1, [.send 0 (.inl seed) .sel, catchAct m e], catchAfter m)

/-- Throttling's pacer, one round: `ops` tokens pushed under select, then wait for the timer under select -/
def pacerIter (ops interval : Nat) : List (Act (α ⊕ Unit)) × After :=
  (List.replicate ops (.send 1 (.inr ()) .sel) ++ [.afterSel interval], .cont)

/-- Throttling's data goroutine on element `a`: take a token, forward -/
def dataIter (a : α) : List (Act (α ⊕ Unit)) × After :=
  ([.recvSel 1, .send 0 (.inl a) .sel], .cont)

/-- what `make` and `close` say in the three functions: capacities by channel index (returned channels first) and
the channels each goroutine closes on exit, in execution order -/
structure SrcCfg where
  caps : (cap ops : Nat) → (errch : Nat → Nat) → List Nat
  closes : List (List Nat)
  deriving Inhabited

/-- Emit / Unfold: `out := make(chan T, cap); exx := f.errch(cap); defer close(out); defer close(exx)` -/
def emitCfg : SrcCfg := { caps := fun c _ e => [c, e c], closes := [[1, 0]] }
def unfoldCfg : SrcCfg := emitCfg
/-- Throttling: `out := make(chan A, cap(in)); ctl := make(chan struct{}, ops)`; the pacer closes `ctl`, the data
goroutine closes `out` -/
def throttlingCfg : SrcCfg := { caps := fun c ops _ => [c, ops], closes := [[1], [0]] }

end Golem.Model.DSLT
