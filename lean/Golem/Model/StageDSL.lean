/-
The loop-body monad: target language of the `stages` translator (go/xlate/stages.go).

The translator reads the consumer stages of `pipe/pipe.go` and `pipe/fork/fork.go` (and the
`catch`/`errch` methods of the two `function.go`) and emits, for every stage, the loop body of its
worker goroutine as a `do` block in `BodyM`, the initial local state, the deferred sends, the channel
capacities as `make` computes them, the close order and the worker layout.  `runBody` turns a body
into the `Stage.react` data of the pool kernel (`Go/Pool.lean`); the theorems `*_gen` (Props/C05,
C06, C07, C09, C10, C12) prove the regenerated definitions EQUAL to the hand-written `Model/Stages`
instances and `Model/StageCfg` configurations that every network theorem and the lock-step oracle are
about.  A semantic edit of a stage changes the generated term and the equality no longer closes; an
edit that keeps the meaning (statement order of independent things, renamed variables, merged or
split `if`s with the same outcome) still proves.

Reading of the Go constructs (fixed here, trusted):

  select { case ch <- v: case <-ctx.Done(): return }   `selSend ch v`   (an `Em` in mode `sel`; the kernel gives it
                                                       the two successors "sent" and "Done: the worker leaves its loop")
  ch <- v                                              `plainSend ch v`
  select { case <-ctx.Done(): return; default: }       `pollDone` — accepted only as the last statement of a loop body
  return / continue                                    `ret` / `next`
  v, err = f.Apply(a)                                  `← applyF (f a)` with `f a : β × Option ε` (Go returns a value AND an error);
                                                       every call site is one counted call (`callsOf`)
  err := fmap.Apply(ctx, a, out)                       `arrow (g a) out` for the arrow family "send each element under
                                                       select with ctx.Done (return nil on Done), then return the error"
  f.Apply(x)  (results dropped)                        `visit x` (ghost log of the user function's calls)
  if !f.catch(ctx, err, exx) { return }                `if !(← catch err exx) then ret`; inside `catch` the arm
                                                       `case <-ctx.Done(): return false` of a select-send is the `sel`
                                                       mode's Done successor (sound because every call site returns on false,
                                                       which the translator checks)
Core Lean only.
-/
import Golem.Go.Pool
namespace Golem.Model.DSL
open Golem.Go

/-- what a loop iteration has done so far: local state and the sends performed, in order -/
structure BS (σ β : Type) where
  s : σ
  ems : List (Em β)
  /-- ghost: how many times the iteration has called the user-supplied function so far -/
  calls : Nat := 0

/-- loop-body monad: state `BS`, early exit with the way the iteration ends -/
def BodyM (σ β X : Type) : Type := BS σ β → BS σ β × Except After X

variable {σ β X Y : Type}

@[inline] def BodyM.pure (x : X) : BodyM σ β X := fun b => (b, .ok x)

@[inline] def BodyM.bind (m : BodyM σ β X) (f : X → BodyM σ β Y) : BodyM σ β Y := fun b =>
  match m b with
  | (b', .ok x) => f x b'
  | (b', .error a) => (b', .error a)

instance : Monad (BodyM σ β) where
  pure := BodyM.pure
  bind := BodyM.bind

/-- `select { case ch <- v: case <-ctx.Done(): return }` -/
def selSend (ch : Nat) (v : β) : BodyM σ β Unit := fun b => ({ b with ems := b.ems ++ [⟨ch, v, .sel⟩] }, .ok ())
/-- `ch <- v` -/
def plainSend (ch : Nat) (v : β) : BodyM σ β Unit := fun b => ({ b with ems := b.ems ++ [⟨ch, v, .plain⟩] }, .ok ())
/-- `return` -/
def ret : BodyM σ β X := fun b => (b, .error .stop)
/-- `continue` -/
def next : BodyM σ β X := fun b => (b, .error .cont)
/-- trailing `select { case <-ctx.Done(): return; default: }` -/
def pollDone : BodyM σ β X := fun b => (b, .error .poll)
/-- read / write the goroutine's loop-carried variable -/
def getS : BodyM σ β σ := fun b => (b, .ok b.s)
def setS (s : σ) : BodyM σ β Unit := fun b => ({ b with s := s }, .ok ())
/-- `… = f.Apply(x)`: the results of ONE call of the user-supplied function (the call is counted) -/
def applyF {γ : Type} (r : γ) : BodyM σ β γ := fun b => ({ b with calls := b.calls + 1 }, .ok r)
/-- `f.Apply(x)` with the results dropped: the call is counted and recorded in the ghost log -/
def visit {α : Type} (a : α) : BodyM (List α) β Unit := fun b => ({ b with s := b.s ++ [a], calls := b.calls + 1 }, .ok ())
/-- `fmap.Apply(ctx, a, out)` for the arrow family of the model: the elements go out one by one under
`select` with `ctx.Done`, then the error (if any) is returned -/
def arrow {γ ε : Type} (r : List γ × Option ε) (ch : Nat) (inj : γ → β) : BodyM σ β (Option ε) := fun b =>
  ({ b with ems := b.ems ++ r.1.map fun v => ⟨ch, inj v, .sel⟩, calls := b.calls + 1 }, .ok r.2)

/-- one loop iteration as `Stage.react` wants it -/
def runBody (m : BodyM σ β Unit) (s : σ) : σ × List (Em β) × After :=
  match m { s := s, ems := [] } with
  | (b, .ok _) => (b.s, b.ems, .cont)
  | (b, .error a) => (b.s, b.ems, a)

/-- number of calls of the user-supplied function one loop iteration makes -/
def callsOf (m : BodyM σ β Unit) (s : σ) : Nat := (m { s := s, ems := [] }).1.calls

/-- Go's `(B, error)` result read as the `Except` the hand models use -/
def toExcept {α γ ε : Type} (f : α → γ × Option ε) (a : α) : Except ε γ :=
  match (f a).2 with
  | none => .ok (f a).1
  | some e => .error e

/-- how many worker goroutines a stage starts -/
inductive Workers where
  | one        -- `go func() { … }()`
  | par        -- `wg.Add(par); for i := 1; i <= par; i++ { go w() }`
  | perInput   -- `wg.Add(len(in)); for _, c := range in { go w(c) }`
  deriving DecidableEq, Repr

/-- who closes the outputs -/
inductive Closer where
  | deferred   -- `defer close(…)` in the worker itself
  | waitGroup  -- `go func() { wg.Wait(); close(…) … }()`
  deriving DecidableEq, Repr

/-- everything `make`, `go` and `close` say about a stage -/
structure Cfg where
  workers : Workers
  closer : Closer
  /-- capacities of the channels by output index, given `cap(in)`, `par`, `len(in)` and the mode's `errch` -/
  caps : (inCap par nIn : Nat) → (errch : Nat → Nat) → List Nat
  /-- close order as executed (deferred closes: reverse of the source order) -/
  closes : List Nat

/-- what the collector goroutine of `fork.Fold` does after `wg.Wait()`, statement by statement -/
inductive CollOp where
  | accEmpty                  -- `acc := m.Empty()`
  | foldRecvPar (ch : Nat)    -- `for i := 1; i <= par; i++ { acc = m.Combine(acc, <-ch) }`
  | foldRange (ch : Nat)      -- `for v := range ch { acc = m.Combine(acc, v) }`
  | sendAcc (ch : Nat)        -- `ch <- acc`
  | close (ch : Nat)          -- `close(ch)`
  deriving DecidableEq, Repr

/-- The collector runs alone: after `wg.Wait()` every worker has exited, so `vals` (channel `valsCh`) holds what the
workers left there and nobody else touches it; `done` (channel `doneCh`, capacity 1) is read by the caller only. -/
structure CollSt (α : Type) where
  acc : Option α := none
  vals : List α
  valsClosed : Bool := false
  out : List α := []
  doneClosed : Bool := false

/-- One statement of the collector as a partial function: `none` = the statement would block forever, panic (close of a
closed channel, send on a closed channel), use `acc` before it is declared, or leave the modelled behaviour (a receive
from the closed and empty `vals` yields zero values). -/
def CollOp.run {α : Type} (c : α → α → α) (e : α) (par valsCh doneCh : Nat) : CollOp → CollSt α → Option (CollSt α)
  | .accEmpty, s => some { s with acc := some e }
  | .foldRecvPar ch, s =>
    if ch = valsCh ∧ par ≤ s.vals.length then
      s.acc.map fun a => { s with acc := some ((s.vals.take par).foldl c a), vals := s.vals.drop par }
    else none
  | .foldRange ch, s =>
    if ch = valsCh ∧ s.valsClosed = true then s.acc.map fun a => { s with acc := some (s.vals.foldl c a), vals := [] }
    else none
  | .sendAcc ch, s =>
    if ch = doneCh ∧ s.doneClosed = false ∧ s.out.length < 1 then s.acc.map fun a => { s with out := s.out ++ [a] }
    else none
  | .close ch, s =>
    if ch = valsCh then (if s.valsClosed then none else some { s with valsClosed := true })
    else if ch = doneCh then (if s.doneClosed then none else some { s with doneClosed := true })
    else none

def collRun {α : Type} (c : α → α → α) (e : α) (par valsCh doneCh : Nat) : List CollOp → CollSt α → Option (CollSt α)
  | [], s => some s
  | op :: ops, s => (op.run c e par valsCh doneCh s).bind (collRun c e par valsCh doneCh ops)

/-- what the rest of the program can see of a finished collector: the values sent on `done`, whether `done` and `vals`
are closed, what is left in `vals` -/
def CollSt.obs {α : Type} (s : CollSt α) : List α × Bool × Bool × List α := (s.out, s.doneClosed, s.valsClosed, s.vals)

end Golem.Model.DSL
