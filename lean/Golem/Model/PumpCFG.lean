/-
Control-flow graphs of channel goroutines: target of the `cfg` translator (go/xlate/cfg.go) and the link between the
Go text of `pipe.New`'s pump and the network model `Go/Unbound.lean`.

The translator compiles the goroutine body (structured control flow, `select` with arm bodies, `break` / `continue` /
`return`, deferred closes, calls of local closures and unexported helpers inlined) to a graph of program points,
merges `x, ok := <-ch` with the `!ok` test that follows it, recognises the flush loop
`for mq.head != nil { ch <- head(mq); … }`, minimises the graph (bisimilar program points — e.g. the three inlined
copies of `flush(); return` — are identified) and numbers the points breadth-first from the entry.  `pumpGraph`
below is that graph written by hand next to the control points of `Go/Unbound.lean`; `Props/C08Gen.lean` proves
(1) the regenerated graph EQUALS `pumpGraph` (`decide`), and (2) the model's successor function `pumpNext` IS the
interpretation `step pumpGraph` of that graph, control point by control point (`pump_is_graph`).
A rewrite that keeps the control flow (labelled `break` instead of `continue`/`break`, an explicit receive loop
instead of `range`, the pump or `flush` as named functions, a helper for the non-blocking collection loop) compiles
to the same graph.  Core Lean only.
-/
import Golem.Go.Unbound
namespace Golem.Model.CFG
open Golem.Go Golem.Go.Unbound

/-- the two channels of `pipe.New` -/
inductive Ch | inp | eg
  deriving DecidableEq, Repr

/-- one `case` of a `select` -/
inductive Arm where
  /-- `case <-ctx.Done():` -/
  | done (next : Nat)
  /-- `case x, ok := <-ch:` followed by `if !ok { … }` (or the head of `for x := range ch`): a value goes to `onVal`
  (in the register `x`), closed-and-drained to `onClosed` -/
  | recv (ch : Ch) (onVal onClosed : Nat)
  /-- `case emit(ch, mq) <- head(mq):` — enabled iff the backlog is non-empty (nil-channel trick) -/
  | sendHead (ch : Ch) (next : Nat)
  deriving DecidableEq, Repr

/-- a program point -/
inductive Node where
  /-- `select { arms… [default:] }`; every ready arm is a successor, `default` only if none is -/
  | select (arms : List Arm) (dflt : Option Nat)
  /-- `enq(&x, mq)` -/
  | enq (next : Nat)
  /-- `deq(mq)` -/
  | deq (next : Nat)
  /-- `close(ch)` -/
  | close (ch : Ch) (next : Nat)
  /-- head of `for mq.head != nil { ch <- head(mq); … }`: backlog empty → `empty`; else the blocking send, then `sent` -/
  | flushSend (ch : Ch) (sent empty : Nat)
  /-- the goroutine has returned -/
  | halt
  deriving DecidableEq, Repr

/-- program points by number; the entry is point 0 -/
abbrev Graph := List Node

/-- the pump of `pipe.New` (pipe/unbound.go), program points in breadth-first order -/
def pumpGraph : Graph := [
  /- 0  main      -/ .select [.done 1, .recv .inp 2 3, .sendHead .eg 4] none,
  /- 1  drain     -/ .select [.recv .inp 5 3] (some 6),
  /- 2  mainGot   -/ .enq 0,
  /- 3  flush     -/ .flushSend .eg 7 8,
  /- 4  mainSent  -/ .deq 0,
  /- 5  drainGot  -/ .enq 1,
  /- 6  closeIn   -/ .close .inp 9,
  /- 7  flushSent -/ .deq 3,
  /- 8  closeEg   -/ .close .eg 10,
  /- 9  range     -/ .select [.recv .inp 11 3] none,
  /- 10 exited    -/ .halt,
  /- 11 rangeGot  -/ .enq 9 ]

/-! ### interpretation over the state of `Go/Unbound.lean` -/

variable {α : Type}

/-- a configuration: program point, the register `x` of the last receive, and the network state (its `pc` field is not used) -/
structure Conf (α : Type) where
  node : Nat
  reg : Option α
  st : Net α

/-- blocking send of the backlog head on `eg` -/
def sendHeadEg (c : Conf α) (next : Nat) : List (Conf α) :=
  match c.st.mq with
  | v :: _ =>
    if c.st.eg.closed then [{ c with st := { c.st with panicked := true } }]
    else if c.st.eg.buf.length < c.st.eg.cap then [{ c with node := next, st := pushEg c.st v }]
    else []
  | [] => []

def stepArm (c : Conf α) : Arm → List (Conf α)
  | .done n => if c.st.cancelled then [{ c with node := n }] else []
  | .recv .inp v cl =>
    match c.st.inp.buf with
    | x :: rest => [{ node := v, reg := some x, st := { c.st with inp := { c.st.inp with buf := rest } } }]
    | [] => if c.st.inp.closed then [{ c with node := cl }] else []
  | .recv .eg _ _ => []
  | .sendHead .eg n => sendHeadEg c n
  | .sendHead .inp _ => []

/-- successors of a configuration -/
def stepNode (c : Conf α) : Node → List (Conf α)
  | .select arms dflt =>
    let ss := arms.flatMap (stepArm c)
    if ss.isEmpty then (match dflt with | some d => [{ c with node := d }] | none => []) else ss
  | .enq n =>
    match c.reg with
    | some x => [{ c with node := n, st := { c.st with mq := c.st.mq ++ [x] } }]
    | none => []
  | .deq n => [{ c with node := n, st := { c.st with mq := c.st.mq.tail } }]
  | .close .inp n =>
    if c.st.inp.closed then [{ c with st := { c.st with panicked := true } }]
    else [{ c with node := n, st := { c.st with inp := { c.st.inp with closed := true } } }]
  | .close .eg n =>
    if c.st.eg.closed then [{ c with st := { c.st with panicked := true } }]
    else [{ c with node := n, st := { c.st with eg := { c.st.eg with closed := true } } }]
  | .flushSend .eg sent empty =>
    match c.st.mq with
    | _ :: _ => sendHeadEg c sent
    | [] => [{ c with node := empty }]
  | .flushSend .inp _ _ => []
  | .halt => []

def step (g : Graph) (c : Conf α) : List (Conf α) :=
  match g[c.node]? with
  | some n => stepNode c n
  | none => []

/-! ### correspondence with the control points of `Go/Unbound.lean` -/

/-- the control point a program point of `pumpGraph` (with its register) is -/
def pcOf (node : Nat) (reg : Option α) : Pc α :=
  match node, reg with
  | 0, _ => .main
  | 1, _ => .drain
  | 2, some x => .mainGot x
  | 3, _ => .flush
  | 4, _ => .mainSent
  | 5, some x => .drainGot x
  | 6, _ => .closeIn
  | 7, _ => .flushSent
  | 8, _ => .closeEg
  | 9, _ => .range
  | 11, some x => .rangeGot x
  | _, _ => .exited

/-- the state of the model a configuration stands for -/
def abs (c : Conf α) : Net α := { c.st with pc := pcOf c.node c.reg }

/-- the register holds a value at the three points that are about to enqueue it -/
def WF (c : Conf α) : Prop := c.node < 12 ∧ ((c.node = 2 ∨ c.node = 5 ∨ c.node = 11) → c.reg.isSome)

/-! ### environment moves, read off the graph

The environment's send on `in` may complete by handing the value to the pump while the pump stands at a program point
that can receive from `in` (the value is appended and the pump's receive, which stays enabled, takes it); the
environment's receive on an empty `eg` may take the backlog head directly from the pump while the pump stands at a point
that sends it.  Both are properties of the program point's KIND. -/

/-- can the program point receive from `inp`? -/
def Node.recvsInp : Node → Bool
  | .select arms _ => arms.any fun a => match a with | .recv .inp _ _ => true | _ => false
  | _ => false

/-- where the pump continues after handing the backlog head to a receiver on `eg` at this program point -/
def Node.sendsHead : Node → Option Nat
  | .select arms _ => arms.findSome? fun a => match a with | .sendHead .eg n => some n | _ => none
  | .flushSend .eg sent _ => some sent
  | _ => none

def recvReadyG (g : Graph) (c : Conf α) : Nat :=
  match g[c.node]? with
  | some n => if n.recvsInp then 1 else 0
  | none => 0

def handoffG (g : Graph) (c : Conf α) : List (Conf α × α) :=
  if c.st.eg.closed ∨ c.st.eg.buf ≠ [] then [] else
  match (g[c.node]?).bind Node.sendsHead, c.st.mq with
  | some n, v :: _ => [({ c with node := n, st := { c.st with delivered := c.st.delivered ++ [v] } }, v)]
  | _, _ => []

/-- environment moves on a configuration (the same moves as `Unbound.envNext`, with the two hand-off conditions read off
the graph) -/
def envNextG (g : Graph) (c : Conf α) : Move α → List (Conf α × Obs α)
  | .send v =>
    if c.st.inp.closed then [(c, .nope)]
    else if c.st.inp.buf.length < c.st.inp.cap + recvReadyG g c then
      [({ c with st := { c.st with inp := { c.st.inp with buf := c.st.inp.buf ++ [v] }, sent := c.st.sent ++ [v] } }, .ok)]
    else [(c, .full)]
  | .close =>
    if c.st.inp.closed then [(c, .nope)]
    else [({ c with st := { c.st with inp := { c.st.inp with closed := true } } }, .ok)]
  | .recv =>
    match c.st.eg.buf with
    | v :: rest => [({ c with st := { c.st with eg := { c.st.eg with buf := rest }, delivered := c.st.delivered ++ [v] } }, .value v)]
    | [] =>
      let hs := handoffG g c
      if hs.isEmpty then [(c, if c.st.eg.closed then .closed else .empty)]
      else hs.map fun (q, v) => (q, .value v)
  | .cancel => [({ c with st := { c.st with cancelled := true } }, .ok)]

/-- one step of the network over the graph: a pump step (none once it has panicked) or an environment move -/
def GStep (g : Graph) (c c' : Conf α) : Prop :=
  (c.st.panicked = false ∧ c' ∈ step g c) ∨ ∃ m o, (c', o) ∈ envNextG g c m

inductive GReachable (g : Graph) (cap : Nat) : Conf α → Prop
  | init : GReachable g cap { node := 0, reg := none, st := Unbound.init cap }
  | step {c c'} : GReachable g cap c → GStep g c c' → GReachable g cap c'

end Golem.Model.CFG
