/-
Executable model of /repo/trait/pair/pair.go together with /repo/trait/seq/seq.go (property C15;
expressions cross between the two packages through `pair.ToSeq` / `pair.FromSeq`).  Core Lean only.

Same modelling decisions as `Model/Iter` (read its header first): the state is the tree of iterator
objects of an expression built once with every sub-expression used once; `nil` is the nil interface;
panics are `Except Err`; loops run on fuel that `Props/C15` proves sufficient; `failed e` encodes a
panicking user-function call and is turned back into the exception by `call`.

One type for both packages.  `Sig` is the Go interface an iterator implements:
`Sig.s α` = `seq.Seq[α]`, `Sig.p κ ν` = `pair.Seq[κ, ν]` (= `seq.Seq[ν]` + `Key() κ`).
pair.go's `takeWhile`, `filter`, `plus`, `DropWhile`, `ForEach` are textual copies of seq.go's with
`f(seq.Value())` replaced by `f(seq.Key(), seq.Value())`; `pair.join`, `pair.toSeq`, `pair.fromSeq`
are copies of `seq.join` that differ only in which interface `lhs` and the produced sequences have.
The model therefore has ONE constructor for each such family, indexed by the signature(s), and the
call of a user function on the current position is `elem`:

    elem st = value st                      for seq.Seq      -- f(seq.Value())
    elem st = (key st, value st)            for pair.Seq     -- f(seq.Key(), seq.Value())

`Key()` and `Value()` are *separate* functions (`key`, `value`), each following Go's method
promotion through the embedded field: only `pair.pair` defines `Key`, only `pair.pair`,
`pair.fmap` (and seq's leaves / `seq.fmap`) define `Value`; everything else is promoted.
That `key` and `value` always talk about the same element is a theorem (Props/C15), not built in.
-/
import Golem.Model.Iter
namespace Golem.Model.PairIter
open Golem.Model.Iter (Err)

/-- The Go interface implemented by an iterator. -/
inductive Sig : Type 1 where
  | s (α : Type)       -- seq.Seq[α]
  | p (κ ν : Type)     -- pair.Seq[κ, ν]

/-- what a user callback receives for one position -/
abbrev Elem : Sig → Type
  | .s α => α
  | .p κ ν => κ × ν

/-- result type of `Value()` -/
abbrev Val : Sig → Type
  | .s α => α
  | .p _ ν => ν

/-- result type of `Key()` (seq.Seq has no such method: `Unit`) -/
abbrev KeyT : Sig → Type
  | .s _ => Unit
  | .p κ _ => κ

inductive It : Sig → Type 1 where
  | nil {sg : Sig} : It sg
  | failed {sg : Sig} (e : Err) : It sg
  /-- `seq.element[T]{v}` -/
  | element {α : Type} (v : α) : It (.s α)
  /-- `&seq.seqOf[T]{el}`, `el = src[off:]` -/
  | seqOf {α : Type} (src : List α) (off : Nat) : It (.s α)
  /-- `pair.pair[K, V]{key, val}` -/
  | pair {κ ν : Type} (key : κ) (val : ν) : It (.p κ ν)
  /-- `&takeWhile{Seq: inner, f: f}` of either package -/
  | takeWhile {sg : Sig} (inner : It sg) (f : Option (Elem sg → Bool)) : It sg
  /-- `filter{Seq: inner, f: f}` of either package -/
  | filter {sg : Sig} (inner : It sg) (f : Option (Elem sg → Bool)) : It sg
  /-- `seq.fmap[A, B]{Seq: inner, f: f}` -/
  | fmap {α β : Type} (inner : It (.s α)) (f : α → β) : It (.s β)
  /-- `pair.fmap[K, A, B]{Seq: inner, f: f}` -/
  | pfmap {κ α β : Type} (inner : It (.p κ α)) (f : κ → α → β) : It (.p κ β)
  /-- `&plus{Seq: cur, rhs: rhs}` of either package -/
  | plus {sg : Sig} (cur rhs : It sg) : It sg
  /-- `&seq.join` (s,s) / `&pair.join` (p,p) / `&pair.toSeq` (p,s) / `&pair.fromSeq` (s,p):
  `{Seq: cur, lhs: lhs, rhs: rhs}` -/
  | join {sa sb : Sig} (cur : It sb) (lhs : It sa) (rhs : Elem sa → It sb) : It sb

namespace It

def isNil {sg : Sig} : It sg → Bool
  | .nil => true
  | _ => false

/-- `Key()`: defined by `pair.pair` only, promoted from the embedded `Seq` everywhere else. -/
def key : {sg : Sig} → It sg → Except Err (KeyT sg)
  | _, .nil => .error .nilDeref
  | _, .failed e => .error e
  | _, .element _ => .ok ()
  | _, .seqOf _ _ => .ok ()
  | _, .fmap _ _ => .ok ()
  -- func (v pair[K, V]) Key() K { return v.key }
  | _, .pair k _ => .ok k
  | _, .takeWhile inner _ => key inner
  | _, .filter inner _ => key inner
  | _, @It.pfmap κ α _ inner _ => @key (.p κ α) inner
  | _, .plus cur _ => key cur
  | _, .join cur _ _ => key cur

/-- `Value()`. -/
def value : {sg : Sig} → It sg → Except Err (Val sg)
  | _, .nil => .error .nilDeref
  | _, .failed e => .error e
  | _, .element v => .ok v
  | _, .seqOf src off => match src[off]? with
    | some v => .ok v
    | none => .error .index
  -- func (v pair[K, V]) Value() V { return v.val }
  | _, .pair _ v => .ok v
  | _, .takeWhile inner _ => value inner
  | _, .filter inner _ => value inner
  -- return seq.f(seq.Seq.Value())
  | _, .fmap inner f => match value inner with
    | .error e => .error e
    | .ok a => .ok (f a)
  -- return seq.f(seq.Seq.Key(), seq.Seq.Value())     (arguments evaluated left to right)
  | _, @It.pfmap κ α _ inner f => match @key (.p κ α) inner with
    | .error e => .error e
    | .ok k => match value inner with
      | .error e => .error e
      | .ok a => .ok (f k a)
  | _, .plus cur _ => value cur
  | _, .join cur _ _ => value cur

/-- The argument(s) a user callback is given for the current position:
`seq.Value()` resp. `seq.Key(), seq.Value()`. -/
def elem : {sg : Sig} → It sg → Except Err (Elem sg)
  | .s _, st => value st
  | .p _ _, st => match key st with
    | .error e => .error e
    | .ok k => match value st with
      | .error e => .error e
      | .ok v => .ok (k, v)

def call {sa sb : Sig} (rhs : Elem sa → It sb) (a : Elem sa) : Except Err (It sb) :=
  match rhs a with
  | .failed e => .error e
  | s => .ok s

/-- loop of `filter.Next` (both packages) -/
def filterLoop {sg : Sig} (nx : It sg → Except Err (It sg × Bool)) (p : Elem sg → Bool) :
    Nat → It sg → Except Err (It sg × Bool)
  | 0, _ => .error .fuel
  | m+1, inner =>
    match nx inner with
    | .error e => .error e
    | .ok (inner', false) => .ok (.filter inner' (some p), false)
    | .ok (inner', true) =>
      match elem inner' with
      | .error e => .error e
      | .ok v => if p v then .ok (.filter inner' (some p), true) else filterLoop nx p m inner'

/-- loop of `join.Next` / `toSeq.Next` / `fromSeq.Next` -/
def joinLoop {sa sb : Sig} (nx : It sa → Except Err (It sa × Bool)) (rhs : Elem sa → It sb) :
    Nat → It sb → It sa → Except Err (It sb × Bool)
  | 0, _, _ => .error .fuel
  | m+1, cur, lhs =>
    match nx lhs with
    | .error e => .error e
    | .ok (lhs', false) => .ok (.join cur lhs' rhs, false)
    | .ok (lhs', true) =>
      match elem lhs' with
      | .error e => .error e
      | .ok a =>
        match call rhs a with
        | .error e => .error e
        | .ok cur' =>
          if !cur'.isNil then .ok (.join cur' lhs' rhs, true) else joinLoop nx rhs m cur' lhs'

/-- `Next()` (see `Model/Iter.next` for the Go text next to each clause; pair.go's methods are the
same statements). `pair.pair.Next` returns false; `fmap`s have no `Next` of their own. -/
def next : (n : Nat) → {sg : Sig} → It sg → Except Err (It sg × Bool)
  | 0, _, _ => .error .fuel
  | _+1, _, .nil => .error .nilDeref
  | _+1, _, .failed e => .error e
  | _+1, _, .element v => .ok (.element v, false)
  | _+1, _, .pair k v => .ok (.pair k v, false)
  | _+1, _, .seqOf src off =>
    if src.length - off = 1 then .ok (.seqOf src off, false)
    else if src.length ≤ off then .error .index
    else .ok (.seqOf src (off + 1), true)
  | n+1, _, .takeWhile inner f =>
    match f with
    | none => .ok (.takeWhile inner none, false)
    | some p =>
      if inner.isNil then .ok (.takeWhile inner (some p), false) else
      match next n inner with
      | .error e => .error e
      | .ok (inner', false) => .ok (.takeWhile inner' (some p), false)
      | .ok (inner', true) =>
        match elem inner' with
        | .error e => .error e
        | .ok v => if !p v then .ok (.takeWhile inner' none, false)
                   else .ok (.takeWhile inner' (some p), true)
  | n+1, _, .filter inner f =>
    match f with
    | none => .ok (.filter inner none, false)
    | some p =>
      if inner.isNil then .ok (.filter inner (some p), false) else
      filterLoop (next n) p n inner
  | n+1, _, .fmap inner f =>
    match next n inner with
    | .error e => .error e
    | .ok (inner', b) => .ok (.fmap inner' f, b)
  | n+1, _, .pfmap inner f =>
    match next n inner with
    | .error e => .error e
    | .ok (inner', b) => .ok (.pfmap inner' f, b)
  | n+1, _, .plus cur rhs =>
    match next n cur with
    | .error e => .error e
    | .ok (cur', hasNext) =>
      if !hasNext && !rhs.isNil then .ok (.plus rhs .nil, true)
      else if !hasNext && rhs.isNil then .ok (.plus cur' rhs, false)
      else .ok (.plus cur' rhs, true)
  | n+1, _, .join cur lhs rhs =>
    match next n cur with
    | .error e => .error e
    | .ok (cur', true) => .ok (.join cur' lhs rhs, true)
    | .ok (cur', false) => joinLoop (next n) rhs n cur' lhs

end It

open It

/-! ### Constructor functions -/

/-- `seq.From` -/
def From {α : Type} (v : α) : It (.s α) := .element v

/-- `seq.FromSlice` -/
def FromSlice {α : Type} (xs : List α) : It (.s α) :=
  if xs.length = 0 then .nil else .seqOf xs 0

/-- `pair.From(key, val)` -/
def PFrom {κ ν : Type} (k : κ) (v : ν) : It (.p κ ν) := .pair k v

/-- `seq.TakeWhile` / `pair.TakeWhile`:
`if seq == nil || !f(seq.Key(), seq.Value()) { return nil }; return &takeWhile{…}` -/
def TakeWhile {sg : Sig} (seq : It sg) (f : Elem sg → Bool) : Except Err (It sg) :=
  if seq.isNil then .ok .nil else
  match elem seq with
  | .error e => .error e
  | .ok v => if !f v then .ok .nil else .ok (.takeWhile seq (some f))

def dropLoop {sg : Sig} (c : Nat) (f : Elem sg → Bool) : Nat → It sg → Except Err (It sg)
  | 0, _ => .error .fuel
  | m+1, seq =>
    match elem seq with
    | .error e => .error e
    | .ok v =>
      if !f v then .ok seq else
      match next c seq with
      | .error e => .error e
      | .ok (seq', has) => if !has then .ok .nil else dropLoop c f m seq'

/-- `seq.DropWhile` / `pair.DropWhile` -/
def DropWhile {sg : Sig} (c : Nat) (seq : It sg) (f : Elem sg → Bool) : Except Err (It sg) :=
  if seq.isNil then .ok .nil else dropLoop c f c seq

def filterInit {sg : Sig} (c : Nat) (f : Elem sg → Bool) : Nat → It sg → Except Err (It sg)
  | 0, _ => .error .fuel
  | m+1, seq =>
    match elem seq with
    | .error e => .error e
    | .ok v =>
      if f v then .ok (.filter seq (some f)) else
      match next c seq with
      | .error e => .error e
      | .ok (seq', has) => if !has then .ok .nil else filterInit c f m seq'

/-- `seq.Filter` / `pair.Filter` -/
def Filter {sg : Sig} (c : Nat) (seq : It sg) (f : Elem sg → Bool) : Except Err (It sg) :=
  if seq.isNil then .ok .nil else filterInit c f c seq

/-- `seq.Map` -/
def Map {α β : Type} (seq : It (.s α)) (f : α → β) : It (.s β) :=
  if seq.isNil then .nil else .fmap seq f

/-- `pair.Map` -/
def PMap {κ α β : Type} (seq : It (.p κ α)) (f : κ → α → β) : It (.p κ β) :=
  if seq.isNil then .nil else .pfmap seq f

/-- `seq.Plus` / `pair.Plus` -/
def Plus {sg : Sig} (lhs rhs : It sg) : It sg :=
  if lhs.isNil then rhs else if rhs.isNil then lhs else .plus lhs rhs

def joinInit {sa sb : Sig} (c : Nat) (rhs : Elem sa → It sb) : Nat → It sa → Except Err (It sb)
  | 0, _ => .error .fuel
  | m+1, lhs =>
    match elem lhs with
    | .error e => .error e
    | .ok a =>
      match call rhs a with
      | .error e => .error e
      | .ok cur =>
        if !cur.isNil then .ok (.join cur lhs rhs) else
        match next c lhs with
        | .error e => .error e
        | .ok (lhs', has) => if !has then .ok .nil else joinInit c rhs m lhs'

/-- `seq.Join` (sa = s, sb = s), `pair.Join` (p, p), `pair.ToSeq` (p, s), `pair.FromSeq` (s, p). -/
def Join {sa sb : Sig} (c : Nat) (lhs : It sa) (rhs : Elem sa → It sb) : Except Err (It sb) :=
  if lhs.isNil then .ok .nil else joinInit c rhs c lhs

/-! ### Consumers -/

/-- The documented loop, collecting `Value()` (seq) resp. `(Key(), Value())` (pair). -/
def drainLoop {sg : Sig} (c : Nat) : Nat → It sg → Except Err (List (Elem sg))
  | 0, _ => .error .fuel
  | m+1, seq =>
    match elem seq with
    | .error e => .error e
    | .ok v =>
      match next c seq with
      | .error e => .error e
      | .ok (seq', has) =>
        if has then
          match drainLoop c m seq' with
          | .error e => .error e
          | .ok l => .ok (v :: l)
        else .ok [v]

def drain {sg : Sig} (c : Nat) (seq : It sg) : Except Err (List (Elem sg)) :=
  if seq.isNil then .ok [] else drainLoop c c seq

def forEachLoop {sg : Sig} {σ ε : Type} (c : Nat) (f : σ → Elem sg → σ × Option ε) :
    Nat → σ → It sg → Except Err (σ × Option ε)
  | 0, _, _ => .error .fuel
  | m+1, acc, seq =>
    match elem seq with
    | .error e => .error e
    | .ok v =>
      match f acc v with
      | (acc', some err) => .ok (acc', some err)
      | (acc', none) =>
        match next c seq with
        | .error e => .error e
        | .ok (seq', has) => if has then forEachLoop c f m acc' seq' else .ok (acc', none)

/-- `seq.ForEach` / `pair.ForEach` with a stateful callback. -/
def ForEach {sg : Sig} {σ ε : Type} (c : Nat) (seq : It sg) (f : σ → Elem sg → σ × Option ε) (acc : σ) :
    Except Err (σ × Option ε) :=
  if seq.isNil then .ok (acc, none) else forEachLoop c f c acc seq

/-! ### Expressions -/

inductive Ex : Sig → Type 1 where
  | from {α : Type} (v : α) : Ex (.s α)
  | fromSlice {α : Type} (xs : List α) : Ex (.s α)
  | pfrom {κ ν : Type} (k : κ) (v : ν) : Ex (.p κ ν)
  | takeWhile {sg : Sig} (e : Ex sg) (f : Elem sg → Bool) : Ex sg
  | dropWhile {sg : Sig} (e : Ex sg) (f : Elem sg → Bool) : Ex sg
  | filter {sg : Sig} (e : Ex sg) (f : Elem sg → Bool) : Ex sg
  | map {α β : Type} (e : Ex (.s α)) (f : α → β) : Ex (.s β)
  | pmap {κ α β : Type} (e : Ex (.p κ α)) (f : κ → α → β) : Ex (.p κ β)
  | plus {sg : Sig} (l r : Ex sg) : Ex sg
  /-- seq.Join / pair.Join / pair.ToSeq / pair.FromSeq according to the two signatures -/
  | join {sa sb : Sig} (e : Ex sa) (k : Elem sa → Ex sb) : Ex sb

/-- List semantics: lists of values for seq, lists of (key, value) for pair.  `pmap` changes the
value component only. -/
def denote : {sg : Sig} → Ex sg → List (Elem sg)
  | _, .from v => [v]
  | _, .fromSlice xs => xs
  | _, .pfrom k v => [(k, v)]
  | _, .takeWhile e f => (denote e).takeWhile f
  | _, .dropWhile e f => (denote e).dropWhile f
  | _, .filter e f => (denote e).filter f
  | _, .map e f => (denote e).map f
  | _, .pmap e f => (denote e).map (fun kv => (kv.1, f kv.1 kv.2))
  | _, .plus l r => denote l ++ denote r
  | _, .join e k => (denote e).flatMap (fun a => denote (k a))

def toFailed {sg : Sig} : Except Err (It sg) → It sg
  | .ok s => s
  | .error e => .failed e

def build (c : Nat) : {sg : Sig} → Ex sg → Except Err (It sg)
  | _, .from v => .ok (From v)
  | _, .fromSlice xs => .ok (FromSlice xs)
  | _, .pfrom k v => .ok (PFrom k v)
  | _, .takeWhile e f => match build c e with
    | .error x => .error x
    | .ok s => TakeWhile s f
  | _, .dropWhile e f => match build c e with
    | .error x => .error x
    | .ok s => DropWhile c s f
  | _, .filter e f => match build c e with
    | .error x => .error x
    | .ok s => Filter c s f
  | _, .map e f => match build c e with
    | .error x => .error x
    | .ok s => .ok (Map s f)
  | _, .pmap e f => match build c e with
    | .error x => .error x
    | .ok s => .ok (PMap s f)
  | _, .plus l r => match build c l with
    | .error x => .error x
    | .ok sl => match build c r with
      | .error x => .error x
      | .ok sr => .ok (Plus sl sr)
  | _, .join e k => match build c e with
    | .error x => .error x
    | .ok s => Join c s (fun a => toFailed (build c (k a)))

def sumOver {α : Type} (f : α → Nat) : List α → Nat
  | [] => 0
  | a :: as => f a + sumOver f as

def cost : {sg : Sig} → Ex sg → Nat
  | _, .from _ => 2
  | _, .fromSlice xs => xs.length + 2
  | _, .pfrom _ _ => 2
  | _, .takeWhile e _ => cost e + 1
  | _, .dropWhile e _ => cost e + 1
  | _, .filter e _ => cost e + 1
  | _, .map e _ => cost e + 1
  | _, .pmap e _ => cost e + 1
  | _, .plus l r => cost l + cost r + 1
  | _, .join e k => cost e + sumOver (fun a => cost (k a)) (denote e) + 1

def eval {sg : Sig} (e : Ex sg) : Except Err (List (Elem sg)) :=
  match build (cost e) e with
  | .error x => .error x
  | .ok s => drain (cost e) s

def evalForEach {sg : Sig} {σ ε : Type} (e : Ex sg) (f : σ → Elem sg → σ × Option ε) (acc : σ) :
    Except Err (σ × Option ε) :=
  match build (cost e) e with
  | .error x => .error x
  | .ok s => ForEach (cost e) s f acc

def visit {α σ ε : Type} (f : σ → α → σ × Option ε) : σ → List α → σ × Option ε
  | acc, [] => (acc, none)
  | acc, x :: xs =>
    match f acc x with
    | (acc', some err) => (acc', some err)
    | (acc', none) => visit f acc' xs

end Golem.Model.PairIter
