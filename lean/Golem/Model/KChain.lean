/-
Specification side of C20: a heterogeneous chain of Kleisli arrows and its
left-to-right run.  `run (f₁ ⋯ f_N) a = f₁ a >>= f₂ >>= … >>= f_N`: every arrow
is applied exactly once, in order, to the previous result.
-/
namespace Golem.Model

inductive KChain (m : Type → Type) : Type → Type → Type 1 where
  | one  {A B : Type} (f : A → m B) : KChain m A B
  | cons {A B C : Type} (f : A → m B) (rest : KChain m B C) : KChain m A C

namespace KChain
variable {m : Type → Type}

def run [Monad m] {A B : Type} : KChain m A B → A → m B
  | .one f, a => f a
  | .cons f r, a => f a >>= fun b => r.run b

def length {A B : Type} : KChain m A B → Nat
  | .one _ => 1
  | .cons _ r => r.length + 1

end KChain

/-- The effect used by the non-vacuity examples and by the oracle: every arrow
logs its own index and adds a stage-specific non-commuting transformation. -/
abbrev Trace := StateM (List Nat)

def logged (i : Nat) (f : Int → Int) : Int → Trace Int := fun x => do
  modify (· ++ [i]); pure (f x)

end Golem.Model
