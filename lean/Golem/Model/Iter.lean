/-
Executable model of /repo/trait/seq/seq.go (property C14).  Core Lean only.

Go iterators are mutable objects reached through the interface `Seq[T]`; a combinator holds a
reference to its argument(s).  An expression that is built once, each sub-expression being used
once (linear use), therefore forms a *tree* of iterator objects, and the model's state `St α`
is that tree: one constructor per Go struct, one field per Go field, mutation = returning the
new tree.  `St.nil` is the nil interface value (`seq == nil`).

* `value`  mirrors each `Value()` (embedded-struct promotion spelled out),
* `next n` mirrors each `Next()` statement by statement and returns the new state together with
  the Go result; the `for {}` loops of `filter.Next` and `join.Next` are `filterLoop`/`joinLoop`,
* `From … Join` mirror the constructor functions incl. their positioning loops,
* `drain` is the documented consumption loop, `ForEach` is `seq.ForEach`.

Panics are `Except Err`: `.nilDeref` (method call on a nil interface), `.index` (`el[0]` /
`el[1:]` on an empty slice).  `.fuel` is not a Go behaviour: every loop that is not structurally
recursive runs on fuel `n` (decremented on each nested `Next()` call and on each loop iteration);
`Props/C14` proves that the fuel `cost e` used by `eval` is sufficient, i.e. `.fuel` (and every
panic) is unreachable from an expression.

A slice is modelled as a window into its backing array: `seqOf src off` is `el = src[off:]`.
`Next()` re-slices (`off+1`); nothing in the model ever produces a different `src`.

`St.failed e` is not a Go value either: `join` stores the user function `rhs : A → Seq[B]`; in the
model that function may itself panic (it runs the model), Lean's inductive types cannot nest
`Except Err (St β)` under an index, so the closure returns `failed e` for "this call panicked"
and `call` turns it back into the exception at the call site, immediately.
-/
namespace Golem.Model.Iter

inductive Err where
  | nilDeref | index | fuel
  deriving DecidableEq, Repr

/-- The tree of iterator objects.  Field names follow seq.go. -/
inductive St : Type → Type 1 where
  /-- nil interface value -/
  | nil {α : Type} : St α
  /-- `element[T]{v}` -/
  | element {α : Type} (v : α) : St α
  /-- `&seqOf[T]{el}` with `el = src[off:]` -/
  | seqOf {α : Type} (src : List α) (off : Nat) : St α
  /-- `&takeWhile[T]{Seq: inner, f: f}`; `f = none` after `seq.f = nil` -/
  | takeWhile {α : Type} (inner : St α) (f : Option (α → Bool)) : St α
  /-- `filter[T]{Seq: inner, f: f}` -/
  | filter {α : Type} (inner : St α) (f : Option (α → Bool)) : St α
  /-- `fmap[A, B]{Seq: inner, f: f}` -/
  | fmap {α β : Type} (inner : St α) (f : α → β) : St β
  /-- `&plus[T]{Seq: cur, rhs: rhs}` -/
  | plus {α : Type} (cur : St α) (rhs : St α) : St α
  /-- `&join[A, B]{Seq: cur, lhs: lhs, rhs: rhs}` -/
  | join {α β : Type} (cur : St β) (lhs : St α) (rhs : α → St β) : St β
  /-- result of a user function call that panicked (see header); never stored by the combinators -/
  | failed {α : Type} (e : Err) : St α

namespace St

/-- `seq == nil` -/
def isNil {α : Type} : St α → Bool
  | .nil => true
  | _ => false

/-- `Value()`.  takeWhile, filter, plus and join do not define `Value`: it is promoted from the
embedded `Seq` field.  `fmap.Value` is `seq.f(seq.Seq.Value())`. -/
def value : {α : Type} → St α → Except Err α
  | _, .nil => .error .nilDeref
  | _, .failed e => .error e
  | _, .element v => .ok v
  | _, .seqOf src off => match src[off]? with
    | some v => .ok v
    | none => .error .index
  | _, .takeWhile inner _ => value inner
  | _, .filter inner _ => value inner
  | _, .fmap inner f => match value inner with
    | .ok a => .ok (f a)
    | .error e => .error e
  | _, .plus cur _ => value cur
  | _, .join cur _ _ => value cur

/-- Calling the stored user function `rhs(a)`: a panicking call raises at once. -/
def call {α β : Type} (rhs : α → St β) (a : α) : Except Err (St β) :=
  match rhs a with
  | .failed e => .error e
  | s => .ok s

/-- The `for {}` loop of `filter.Next` (`nx` is `seq.Seq.Next`):
```go
for { if !seq.Seq.Next() { return false }
      if seq.f(seq.Value()) { return true } }
``` -/
def filterLoop {α : Type} (nx : St α → Except Err (St α × Bool)) (p : α → Bool) :
    Nat → St α → Except Err (St α × Bool)
  | 0, _ => .error .fuel
  | m+1, inner =>
    match nx inner with
    | .error e => .error e
    | .ok (inner', false) => .ok (.filter inner' (some p), false)
    | .ok (inner', true) =>
      match value inner' with
      | .error e => .error e
      | .ok v => if p v then .ok (.filter inner' (some p), true) else filterLoop nx p m inner'

/-- The `for {}` loop of `join.Next` (`nx` is `join.lhs.Next`, `cur` is the field `join.Seq`):
```go
for { if !join.lhs.Next() { return false }
      join.Seq = join.rhs(join.lhs.Value())
      if join.Seq != nil { return true } }
``` -/
def joinLoop {α β : Type} (nx : St α → Except Err (St α × Bool)) (rhs : α → St β) :
    Nat → St β → St α → Except Err (St β × Bool)
  | 0, _, _ => .error .fuel
  | m+1, cur, lhs =>
    match nx lhs with
    | .error e => .error e
    | .ok (lhs', false) => .ok (.join cur lhs' rhs, false)
    | .ok (lhs', true) =>
      match value lhs' with
      | .error e => .error e
      | .ok a =>
        match call rhs a with
        | .error e => .error e
        | .ok cur' =>
          if !cur'.isNil then .ok (.join cur' lhs' rhs, true) else joinLoop nx rhs m cur' lhs'

/-- `Next()`: the new state of the object tree and the returned bool. -/
def next : (n : Nat) → {α : Type} → St α → Except Err (St α × Bool)
  | 0, _, _ => .error .fuel
  | _+1, _, .nil => .error .nilDeref
  | _+1, _, .failed e => .error e
  -- func (v element[T]) Next() bool { return false }
  | _+1, _, .element v => .ok (.element v, false)
  -- if len(s.el) == 1 { return false }; s.el = s.el[1:]; return true
  | _+1, _, .seqOf src off =>
    if src.length - off = 1 then .ok (.seqOf src off, false)
    else if src.length ≤ off then .error .index
    else .ok (.seqOf src (off + 1), true)
  | n+1, _, .takeWhile inner f =>
    match f with
    -- if seq.f == nil || seq.Seq == nil { return false }
    | none => .ok (.takeWhile inner none, false)
    | some p =>
      if inner.isNil then .ok (.takeWhile inner (some p), false) else
      -- if !seq.Seq.Next() { return false }
      match next n inner with
      | .error e => .error e
      | .ok (inner', false) => .ok (.takeWhile inner' (some p), false)
      | .ok (inner', true) =>
        -- if !seq.f(seq.Value()) { seq.f = nil; return false }; return true
        match value inner' with
        | .error e => .error e
        | .ok v => if !p v then .ok (.takeWhile inner' none, false)
                   else .ok (.takeWhile inner' (some p), true)
  | n+1, _, .filter inner f =>
    match f with
    -- if seq.f == nil || seq.Seq == nil { return false }
    | none => .ok (.filter inner none, false)
    | some p =>
      if inner.isNil then .ok (.filter inner (some p), false) else
      filterLoop (next n) p n inner
  -- fmap has no Next of its own: promoted from the embedded Seq
  | n+1, _, .fmap inner f =>
    match next n inner with
    | .error e => .error e
    | .ok (inner', b) => .ok (.fmap inner' f, b)
  | n+1, _, .plus cur rhs =>
    -- hasNext := plus.Seq.Next()
    match next n cur with
    | .error e => .error e
    | .ok (cur', hasNext) =>
      -- if !hasNext && plus.rhs != nil { plus.Seq, plus.rhs = plus.rhs, nil; return true }
      if !hasNext && !rhs.isNil then .ok (.plus rhs .nil, true)
      -- if !hasNext && plus.rhs == nil { return false }
      else if !hasNext && rhs.isNil then .ok (.plus cur' rhs, false)
      else .ok (.plus cur' rhs, true)
  | n+1, _, .join cur lhs rhs =>
    -- if !join.Seq.Next() { for {…} }; return true
    match next n cur with
    | .error e => .error e
    | .ok (cur', true) => .ok (.join cur' lhs rhs, true)
    | .ok (cur', false) => joinLoop (next n) rhs n cur' lhs

end St

open St

/-! ### Constructor functions -/

/-- `func From[T any](xs T) Seq[T] { return element[T]{xs} }` -/
def From {α : Type} (v : α) : St α := .element v

/-- `if len(xs) == 0 { return nil }; return &seqOf[T]{xs}` -/
def FromSlice {α : Type} (xs : List α) : St α :=
  if xs.length = 0 then .nil else .seqOf xs 0

/-- `if seq == nil || !f(seq.Value()) { return nil }; return &takeWhile[T]{Seq: seq, f: f}` -/
def TakeWhile {α : Type} (seq : St α) (f : α → Bool) : Except Err (St α) :=
  if seq.isNil then .ok .nil else
  match value seq with
  | .error e => .error e
  | .ok v => if !f v then .ok .nil else .ok (.takeWhile seq (some f))

/-- `for { if !f(seq.Value()) { return seq }; if !seq.Next() { return nil } }` -/
def dropLoop {α : Type} (c : Nat) (f : α → Bool) : Nat → St α → Except Err (St α)
  | 0, _ => .error .fuel
  | m+1, seq =>
    match value seq with
    | .error e => .error e
    | .ok v =>
      if !f v then .ok seq else
      match next c seq with
      | .error e => .error e
      | .ok (seq', has) => if !has then .ok .nil else dropLoop c f m seq'

/-- `DropWhile` returns its (advanced) argument itself. -/
def DropWhile {α : Type} (c : Nat) (seq : St α) (f : α → Bool) : Except Err (St α) :=
  if seq.isNil then .ok .nil else dropLoop c f c seq

/-- `for { if f(seq.Value()) { return filter[T]{Seq: seq, f: f} }; if !seq.Next() { return nil } }` -/
def filterInit {α : Type} (c : Nat) (f : α → Bool) : Nat → St α → Except Err (St α)
  | 0, _ => .error .fuel
  | m+1, seq =>
    match value seq with
    | .error e => .error e
    | .ok v =>
      if f v then .ok (.filter seq (some f)) else
      match next c seq with
      | .error e => .error e
      | .ok (seq', has) => if !has then .ok .nil else filterInit c f m seq'

def Filter {α : Type} (c : Nat) (seq : St α) (f : α → Bool) : Except Err (St α) :=
  if seq.isNil then .ok .nil else filterInit c f c seq

/-- `if seq == nil { return nil }; return fmap[A, B]{Seq: seq, f: f}` -/
def Map {α β : Type} (seq : St α) (f : α → β) : St β :=
  if seq.isNil then .nil else .fmap seq f

/-- `if lhs == nil { return rhs }; if rhs == nil { return lhs }; return &plus[T]{Seq: lhs, rhs: rhs}` -/
def Plus {α : Type} (lhs rhs : St α) : St α :=
  if lhs.isNil then rhs else if rhs.isNil then lhs else .plus lhs rhs

/-- ```go
join := &join[A, B]{lhs: lhs, rhs: rhs}
for { join.Seq = join.rhs(join.lhs.Value())
      if join.Seq != nil { return join }
      if !join.lhs.Next() { return nil } }
``` -/
def joinInit {α β : Type} (c : Nat) (rhs : α → St β) : Nat → St α → Except Err (St β)
  | 0, _ => .error .fuel
  | m+1, lhs =>
    match value lhs with
    | .error e => .error e
    | .ok a =>
      match call rhs a with
      | .error e => .error e
      | .ok cur =>
        if !cur.isNil then .ok (.join cur lhs rhs) else
        match next c lhs with
        | .error e => .error e
        | .ok (lhs', has) => if !has then .ok .nil else joinInit c rhs m lhs'

def Join {α β : Type} (c : Nat) (lhs : St α) (rhs : α → St β) : Except Err (St β) :=
  if lhs.isNil then .ok .nil else joinInit c rhs c lhs

/-! ### Consumers -/

/-- The documented loop `for has := seq != nil; has; has = seq.Next() { … seq.Value() … }`,
collecting the values. -/
def drainLoop {α : Type} (c : Nat) : Nat → St α → Except Err (List α)
  | 0, _ => .error .fuel
  | m+1, seq =>
    match value seq with
    | .error e => .error e
    | .ok v =>
      match next c seq with
      | .error e => .error e
      | .ok (seq', has) =>
        if has then
          match drainLoop c m seq' with
          | .error e => .error e
          | .ok l => .ok (v :: l)
        else .ok [v]

def drain {α : Type} (c : Nat) (seq : St α) : Except Err (List α) :=
  if seq.isNil then .ok [] else drainLoop c c seq

/-- `seq.ForEach`.  The callback is an arbitrary *stateful* function (state `σ` threaded through
the calls: a visit counter, a log, …) returning an optional error.
```go
for has := seq != nil; has; has = seq.Next() {
    if err := f(seq.Value()); err != nil { return err } }
return nil
``` -/
def forEachLoop {α σ ε : Type} (c : Nat) (f : σ → α → σ × Option ε) :
    Nat → σ → St α → Except Err (σ × Option ε)
  | 0, _, _ => .error .fuel
  | m+1, acc, seq =>
    match value seq with
    | .error e => .error e
    | .ok v =>
      match f acc v with
      | (acc', some err) => .ok (acc', some err)
      | (acc', none) =>
        match next c seq with
        | .error e => .error e
        | .ok (seq', has) => if has then forEachLoop c f m acc' seq' else .ok (acc', none)

def ForEach {α σ ε : Type} (c : Nat) (seq : St α) (f : σ → α → σ × Option ε) (acc : σ) :
    Except Err (σ × Option ε) :=
  if seq.isNil then .ok (acc, none) else forEachLoop c f c acc seq

/-! ### Expressions -/

/-- Expression trees over the combinators, of any depth, with arbitrary predicates, mappings and
join functions (the join function returns a *fresh* expression per element). -/
inductive Expr : Type → Type 1 where
  | from {α : Type} (v : α) : Expr α
  | fromSlice {α : Type} (xs : List α) : Expr α
  | takeWhile {α : Type} (e : Expr α) (f : α → Bool) : Expr α
  | dropWhile {α : Type} (e : Expr α) (f : α → Bool) : Expr α
  | filter {α : Type} (e : Expr α) (f : α → Bool) : Expr α
  | map {α β : Type} (e : Expr α) (f : α → β) : Expr β
  | plus {α : Type} (l r : Expr α) : Expr α
  | join {α β : Type} (e : Expr α) (k : α → Expr β) : Expr β

/-- List semantics. -/
def denote : {α : Type} → Expr α → List α
  | _, .from v => [v]
  | _, .fromSlice xs => xs
  | _, .takeWhile e f => (denote e).takeWhile f
  | _, .dropWhile e f => (denote e).dropWhile f
  | _, .filter e f => (denote e).filter f
  | _, .map e f => (denote e).map f
  | _, .plus l r => denote l ++ denote r
  | _, .join e k => (denote e).flatMap (fun a => denote (k a))

def toFailed {α : Type} : Except Err (St α) → St α
  | .ok s => s
  | .error e => .failed e

/-- Build the iterator tree with the constructor functions, arguments evaluated left to right.
Every sub-expression is built once and handed to exactly one combinator (linear use). -/
def build (c : Nat) : {α : Type} → Expr α → Except Err (St α)
  | _, .from v => .ok (From v)
  | _, .fromSlice xs => .ok (FromSlice xs)
  | _, .takeWhile e f => match build c e with
    | .error x => .error x
    | .ok s => TakeWhile s f
  | _, .dropWhile e f => match build c e with
    | .error x => .error x
    | .ok s => DropWhile c s f
  | _, .filter e f => match build c e with
    | .error x => .error x
    | .ok s => Filter c s f
  | _, .map e f => match build c e with
    | .error x => .error x
    | .ok s => .ok (Map s f)
  | _, .plus l r => match build c l with
    | .error x => .error x
    | .ok sl => match build c r with
      | .error x => .error x
      | .ok sr => .ok (Plus sl sr)
  | _, .join e k => match build c e with
    | .error x => .error x
    | .ok s => Join c s (fun a => toFailed (build c (k a)))

def sumOver {α : Type} (f : α → Nat) : List α → Nat
  | [] => 0
  | a :: as => f a + sumOver f as

/-- Fuel that `Props/C14.build_repr` proves sufficient for building and consuming `e`. -/
def cost : {α : Type} → Expr α → Nat
  | _, .from _ => 2
  | _, .fromSlice xs => xs.length + 2
  | _, .takeWhile e _ => cost e + 1
  | _, .dropWhile e _ => cost e + 1
  | _, .filter e _ => cost e + 1
  | _, .map e _ => cost e + 1
  | _, .plus l r => cost l + cost r + 1
  | _, .join e k => cost e + sumOver (fun a => cost (k a)) (denote e) + 1

/-- Build `e` and consume it with the documented loop. -/
def eval {α : Type} (e : Expr α) : Except Err (List α) :=
  match build (cost e) e with
  | .error x => .error x
  | .ok s => drain (cost e) s

/-- Build `e` and consume it with `seq.ForEach`. -/
def evalForEach {α σ ε : Type} (e : Expr α) (f : σ → α → σ × Option ε) (acc : σ) :
    Except Err (σ × Option ε) :=
  match build (cost e) e with
  | .error x => .error x
  | .ok s => ForEach (cost e) s f acc

/-- Specification of ForEach on a list: visit in order, stop at the first error. -/
def visit {α σ ε : Type} (f : σ → α → σ × Option ε) : σ → List α → σ × Option ε
  | acc, [] => (acc, none)
  | acc, x :: xs =>
    match f acc x with
    | (acc', some err) => (acc', some err)
    | (acc', none) => visit f acc' xs

end Golem.Model.Iter
