/-
Hand model of /repo/duct/ast.go and /repo/duct/duct.go (property C16), core Lean only.

The model follows the Go code statement by statement:

* `Ast`            — the four node kinds `AstFrom / AstYield / AstMap / AstSeq` (payloads `Source`,
                     `Target`, `F` are opaque `any` values that no code path inspects: not modelled);
* `Ast.append`     — `func (f *AstSeq) append(n Ast) bool`; the mutated receiver is returned;
* `Ast.unit`       — `func (f *AstSeq) unit() bool`;
* `From … Yield`   — the six combinators of duct.go as operations on `Morphism.code` (the root);
* `typeName`       — `duct.typeName` over the reflect kinds Ptr / Slice / anything else;
* `Ast.apply`      — the four `Apply(depth, v)` methods, threading an arbitrary visitor state and
                     returning the first error.

Pointer mutation is modelled by returning the new receiver: `f.append n = (ok, f')`.
-/
namespace Golem.Model.Duct

/-! ## Go types and `duct.TypeOf` -/

/-- The Go types that can instantiate the type parameters (a small universe closed under
`[]` and `*`).  `named n` is any type whose `reflect.Type.Name()` is `n` and whose kind is neither
Ptr nor Slice (defined struct types `T0`, predeclared `int`, `string`, the defined interface type
`duct.Void`, …); `anon` is an unnamed type of another kind, e.g. `any` (`Name() = ""`). -/
inductive Ty where
  | named (name : String)
  | anon
  | slice (elem : Ty)
  | ptr (elem : Ty)
deriving DecidableEq, Repr, Inhabited

/-- `func typeName(t reflect.Type) string` (duct.go:146-155); `TypeOf[T]() = typeName T`. -/
def typeName : Ty → String
  | .ptr t => "*" ++ typeName t
  | .slice t => "[]" ++ typeName t
  | .named n => n
  | .anon => ""

/-- `type Void any`: a *defined* interface type, so `reflect` reports the name `Void`. -/
def Void : Ty := .named "Void"

/-! ## The syntax tree -/

/-- `AstFrom{Type}`, `AstYield{Type}`, `AstMap{TypeA, TypeB}`, `AstSeq{Root, Deferred, Seq}`. -/
inductive Ast where
  | afrom (type : String)
  | ayield (type : String)
  | amap (typeA typeB : String)
  | aseq (root deferred : Bool) (seq : List Ast)
deriving Repr, Inhabited

/-- `case *AstSeq:` of the type switches in `unit` and `append`. -/
def Ast.isSeq : Ast → Bool
  | .aseq _ _ _ => true
  | _ => false

mutual
/-- `func (f *AstSeq) append(n Ast) bool` (ast.go:187-206).  Only ever invoked on `*AstSeq`
receivers; on the other constructors the model returns `false` and the receiver unchanged. -/
def Ast.append : Ast → Ast → Bool × Ast
  | .aseq root deferred seq, n =>
    if !deferred then (false, .aseq root deferred seq)                 -- if !f.Deferred { return false }
    else if seq.length == 0 then (true, .aseq root deferred (seq ++ [n]))  -- len(f.Seq)==0: append, true
    else match appendLast seq n with                                   -- switch v := f.Seq[len-1].(type)
      | some seq' => (true, .aseq root deferred seq')                  --   case *AstSeq: if v.append(n) { return true }
      | none => (true, .aseq root deferred (seq ++ [n]))               -- f.Seq = append(f.Seq, n); return true
  | a, _ => (false, a)
/-- The type switch on the last element: `some seq'` when the last element is an `*AstSeq` whose
`append` returned true (`seq'` = the slice with that element updated), `none` otherwise. -/
def appendLast : List Ast → Ast → Option (List Ast)
  | [], _ => none
  | [v], n =>
    if v.isSeq then
      match v.append n with
      | (true, v') => some [v']
      | (false, _) => none
    else none
  | c :: c' :: cs, n => (appendLast (c' :: cs) n).map (c :: ·)
end

mutual
/-- `func (f *AstSeq) unit() bool` (ast.go:162-185). -/
def Ast.unit : Ast → Bool × Ast
  | .aseq root deferred seq =>
    if !deferred then (false, .aseq root deferred seq)                 -- if !f.Deferred { return false }
    else if seq.length == 0 then
      (true, .aseq root (if !root then false else deferred) seq)       -- if !f.Root { f.Deferred = false }; return true
    else match unitLast seq with                                       -- switch v := f.Seq[len-1].(type)
      | some seq' => (true, .aseq root deferred seq')                  --   case *AstSeq: if v.unit() { return true }
      | none => (true, .aseq root (if !root then false else deferred) seq)  -- if !f.Root { f.Deferred = false }; return true
  | a => (false, a)
def unitLast : List Ast → Option (List Ast)
  | [] => none
  | [v] =>
    if v.isSeq then
      match v.unit with
      | (true, v') => some [v']
      | (false, _) => none
    else none
  | c :: c' :: cs => (unitLast (c' :: cs)).map (c :: ·)
end

/-! ## The combinators (duct.go).  `Morphism[A, B]{code}` is represented by `code`; the phantom
type parameters are explicit arguments so that the recorded names mirror the Go expressions
`TypeOf[A]()`, `TypeOf[B]()`, `TypeOf[C]()`. -/

/-- `func From[A any](source T[A]) Morphism[A, A]`. -/
def From (A : Ty) : Ast :=
  let code := Ast.aseq true true []
  let inn := Ast.afrom (typeName A)
  (code.append inn).2

/-- `func Join[A, B, C any](f F[B, C], m Morphism[A, B]) Morphism[A, C]`. -/
def Join (_A B C : Ty) (m : Ast) : Ast :=
  let code := m
  let join := Ast.amap (typeName B) (typeName C)
  (code.append join).2

/-- `func LiftF[A, B, C any](f F[B, C], m Morphism[A, []B]) Morphism[A, C]`. -/
def LiftF (_A B C : Ty) (m : Ast) : Ast :=
  let inner := Ast.aseq false true []
  let join := Ast.amap (typeName B) (typeName C)
  let inner := (inner.append join).2
  let code := m
  (code.append inner).2

/-- `func WrapF[A, B any](m Morphism[A, []B]) Morphism[A, B]`. -/
def WrapF (_A _B : Ty) (m : Ast) : Ast :=
  let inner := Ast.aseq false true []
  let code := m
  (code.append inner).2

/-- `func Unit[A, B any](m Morphism[A, B]) Morphism[A, []B]`. -/
def Unit (_A _B : Ty) (m : Ast) : Ast :=
  let code := m
  (code.unit).2

/-- `func Yield[A, B any](target T[B], m Morphism[A, B]) Morphism[A, Void]`. -/
def Yield (_A B : Ty) (m : Ast) : Ast :=
  let code := m
  let eg := Ast.ayield (typeName B)
  (code.append eg).2

/-! ## Programs -/

/-- One combinator call applied to the morphism built so far; the arguments are the call's Go
type parameters other than `A` (which is fixed by `From[A]`). -/
inductive Step where
  | join (B C : Ty)
  | liftF (B C : Ty)
  | wrapF (B : Ty)
  | unit (B : Ty)
  | yield (B : Ty)
deriving DecidableEq, Repr, Inhabited

def Step.apply (A : Ty) : Step → Ast → Ast
  | .join B C, m => Join A B C m
  | .liftF B C, m => LiftF A B C m
  | .wrapF B, m => WrapF A B m
  | .unit B, m => Unit A B m
  | .yield B, m => Yield A B m

/-- `From[A]` followed by the steps, each consuming the previous morphism (every intermediate
morphism is used exactly once). -/
def build (A : Ty) (steps : List Step) : Ast :=
  steps.foldl (fun m s => s.apply A m) (From A)

/-- Go's typing of one step: with `m : Morphism[A, cur]` the call type-checks iff the result is
`some B'`, and then has type `Morphism[A, B']`. -/
def Step.type (cur : Ty) : Step → Option Ty
  | .join B C => if cur = B then some C else none
  | .liftF B C => if cur = .slice B then some C else none
  | .wrapF B => if cur = .slice B then some B else none
  | .unit B => if cur = B then some (.slice B) else none
  | .yield B => if cur = B then some Void else none

def typeOf (cur : Ty) : List Step → Option Ty
  | [] => some cur
  | s :: rest => match s.type cur with
    | some t => typeOf t rest
    | none => none

/-- The programs the Go type checker admits (`From[A]` gives `Morphism[A, A]`). -/
def WellTyped (A : Ty) (steps : List Step) : Prop := (typeOf A steps).isSome = true

instance (A : Ty) (steps : List Step) : Decidable (WellTyped A steps) := by
  unfold WellTyped; infer_instance

/-! ## Visiting -/

/-- The ten methods of `duct.Visitor`. -/
inductive Cb where
  | enterMorphism | leaveMorphism | enterSeq | leaveSeq | enterMap | leaveMap
  | enterFrom | leaveFrom | enterYield | leaveYield
deriving DecidableEq, Repr, Inhabited

/-- One callback invocation `v.On…(depth, node)`. -/
structure Event where
  cb : Cb
  depth : Nat
  node : Ast
deriving Repr, Inhabited

/-- A visitor: an object with state `σ` whose callbacks return `nil` (`none`) or an error. -/
abbrev Visitor (σ ε : Type) := Event → σ → σ × Option ε

mutual
/-- `Apply(depth int, v Visitor) error` of the four node types (ast.go:74-160). -/
def Ast.apply {σ ε : Type} (v : Visitor σ ε) : Nat → Ast → σ → σ × Option ε
  | depth, .afrom t, s =>
    match v ⟨.enterFrom, depth, .afrom t⟩ s with
    | (s, some err) => (s, some err)
    | (s, none) =>
    match v ⟨.leaveFrom, depth, .afrom t⟩ s with
    | (s, some err) => (s, some err)
    | (s, none) => (s, none)
  | depth, .ayield t, s =>
    match v ⟨.enterYield, depth, .ayield t⟩ s with
    | (s, some err) => (s, some err)
    | (s, none) =>
    match v ⟨.leaveYield, depth, .ayield t⟩ s with
    | (s, some err) => (s, some err)
    | (s, none) => (s, none)
  | depth, .amap a b, s =>
    match v ⟨.enterMap, depth, .amap a b⟩ s with
    | (s, some err) => (s, some err)
    | (s, none) =>
    match v ⟨.leaveMap, depth, .amap a b⟩ s with
    | (s, some err) => (s, some err)
    | (s, none) => (s, none)
  | depth, .aseq root deferred seq, s =>
    match v ⟨if root then .enterMorphism else .enterSeq, depth, .aseq root deferred seq⟩ s with
    | (s, some err) => (s, some err)
    | (s, none) =>
    match applyRange v (depth + 1) seq s with        -- for _, x := range n.Seq { x.Apply(depth+1, v) }
    | (s, some err) => (s, some err)
    | (s, none) =>
    match v ⟨if root then .leaveMorphism else .leaveSeq, depth, .aseq root deferred seq⟩ s with
    | (s, some err) => (s, some err)
    | (s, none) => (s, none)
def applyRange {σ ε : Type} (v : Visitor σ ε) : Nat → List Ast → σ → σ × Option ε
  | _, [], s => (s, none)
  | depth, x :: xs, s =>
    match x.apply v depth s with
    | (s, some err) => (s, some err)
    | (s, none) => applyRange v depth xs s
end

/-- `func (seq Morphism[A, B]) Apply(v Visitor) error { return seq.code.Apply(0, v) }`. -/
def Morphism.apply {σ ε : Type} (code : Ast) (v : Visitor σ ε) (s : σ) : σ × Option ε :=
  code.apply v 0 s

/-- The recording visitor of the harness: state = (number of callbacks seen, events recorded);
the callback with index `k` (0-based) records its event and returns the error `err`. -/
def failAt {ε : Type} (k : Nat) (err : ε) : Visitor (Nat × List Event) ε :=
  fun e (n, log) => ((n + 1, log ++ [e]), if n = k then some err else none)

end Golem.Model.Duct
