/-
Hand model (H) of Go's built-in `==` and `<` on the two base types C17 talks about.
Core Lean only.

* `int`: a Go `int` value is a mathematical integer in [-2^63, 2^63); `==` and `<` on it are
  equality and order of that integer.  Modelled on `Int` (no arithmetic is involved, so the
  bound plays no role).
* `string`: a Go string is a finite sequence of BYTES (not runes, not necessarily valid UTF-8).
  `==` is "same length, same bytes"; `<` is lexicographic on unsigned bytes, a proper prefix
  being smaller (runtime `cmpstring`: compare the first min(len) bytes, then the lengths).
  `a > b` is `b < a` for both (Go spec, "Comparison operators").

`GoEq`/`GoOrd` are the interface the generated definitions (Gen/Pure.lean) are written against:
a type parameter with constraint `comparable` becomes `[GoEq T]`, one with `pure.AnyOrderable`
becomes `[GoOrd T]`.
-/
namespace Golem.Model.GoOrd

class GoEq (T : Type) where
  /-- Go's built-in `a == b` -/
  goEq : T → T → Bool

class GoOrd (T : Type) extends GoEq T where
  /-- Go's built-in `a < b`; `a > b` is `goLt b a` -/
  goLt : T → T → Bool

export GoEq (goEq)
export GoOrd (goLt)

instance : GoOrd Int where
  goEq a b := decide (a = b)
  goLt a b := decide (a < b)

/-- A Go string: its bytes. -/
abbrev GoString := List UInt8

/-- `a == b` on strings. -/
def strEq : GoString → GoString → Bool
  | [], [] => true
  | x :: xs, y :: ys => x == y && strEq xs ys
  | _, _ => false

/-- `a < b` on strings: bytewise, unsigned, proper prefix first. -/
def strLt : GoString → GoString → Bool
  | _, [] => false
  | [], _ :: _ => true
  | x :: xs, y :: ys => if x < y then true else if y < x then false else strLt xs ys

instance : GoOrd GoString where
  goEq := strEq
  goLt := strLt

end Golem.Model.GoOrd
