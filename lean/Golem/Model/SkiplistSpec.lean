/-
Specification vocabulary for C18 (core Lean only): the ordinary finite map the skip list is compared
with, and the structural invariant of the forward-pointer chains.
-/
import Golem.Model.Skiplist
namespace Golem.Model.Skiplist

variable {K V : Type}

/-- An ordinary map from keys to values; keys are identified when the comparison says `EQ`
    (for a total order that is equality). -/
def Spec (K V : Type) := K → Option V

def Spec.empty : Spec K V := fun _ => none

/-- `Put` overwrites on equal keys -/
def Spec.put (cmp : K → K → Ordering) (m : Spec K V) (k : K) (v : V) : Spec K V :=
  fun k' => if cmp k' k = .eq then some v else m k'

def Spec.remove (cmp : K → K → Ordering) (m : Spec K V) (k : K) : Spec K V :=
  fun k' => if cmp k' k = .eq then none else m k'

/-- the zero value for absent keys -/
def Spec.get [Inhabited V] (m : Spec K V) (k : K) : V := (m k).getD default

/-- one operation on the map; the height annotation of a `Put` is ignored -/
def Spec.step [Inhabited V] (cmp : K → K → Ordering) (m : Spec K V) : Op K V → Spec K V × Option V
  | .put k v _ => (m.put cmp k v, none)
  | .get k => (m, some (m.get k))
  | .remove k => (m.remove cmp k, some (m.get k))

def Spec.run [Inhabited V] (cmp : K → K → Ordering) (m : Spec K V) : List (Op K V) → Spec K V × List (Option V)
  | [] => (m, [])
  | o :: os =>
    let r := Spec.step cmp m o
    let t := Spec.run cmp r.1 os
    (t.1, r.2 :: t.2)

/-- the heights in a history are what `mkNode` can draw: `1 ≤ h ≤ levels` -/
def Op.heightOk (levels : Nat) : Op K V → Prop
  | .put _ _ h => 1 ≤ h ∧ h ≤ levels
  | _ => True

/-- a history with its height annotations erased -/
def Op.erase : Op K V → Op K V
  | .put k v _ => .put k v 0
  | o => o

variable [Inhabited K] [Inhabited V]

/-- The structural invariant: with `chain l = chains[l]` (the nodes reachable from the head through
    `fingers[l]`), every chain is strictly ascending, chain `l+1` is a sub-chain of chain `l`, a live
    node is on chain `l` exactly when it has more than `l` fingers, heights are between 1 and `levels`,
    and live nodes are allocated nodes other than the head. -/
structure Inv (cmp : K → K → Ordering) (levels : Nat) (s : State K V) : Prop where
  levels_pos : 0 < levels
  levels_eq : s.chains.length = levels
  sorted : ∀ l, l < levels → (s.chains.getD l []).Pairwise (fun a b => cmp (s.key a) (s.key b) = .lt)
  sublist : ∀ l, l + 1 < levels → (s.chains.getD (l + 1) []).Sublist (s.chains.getD l [])
  mem_iff : ∀ l, l < levels → ∀ i, i ∈ s.chains.getD l [] ↔ (i ∈ s.level0 ∧ l < s.height i)
  heights : ∀ i ∈ s.level0, 1 ≤ s.height i ∧ s.height i ≤ levels
  alloc : 0 < s.next ∧ ∀ i ∈ s.level0, 0 < i ∧ i < s.next

end Golem.Model.Skiplist
