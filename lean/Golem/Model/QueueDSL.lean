/-
Pointer programs over the arena model of pipe/queue.go: target language of the `queue` translator
(go/xlate/queue.go).  `enq`, `deq`, `head`, `emit` are translated statement by statement into the monad `QM`
(state: the arena `Model.Queue.Queue`; failure: a nil-pointer dereference, i.e. a Go panic); `Props/C08Gen.lean`
proves the regenerated programs EQUAL to the hand-written `Model/Queue.lean` functions, which `queue_refines_fifo`
(Props/C08) relates to the abstract backlog list the pump's model uses.

  queue.head / queue.tail             `← getHead` / `← getTail`          (a `*q[A]` is `Option Nat`: a node id or nil)
  p.next / p.value                    `← nextOf p` / `← valueOf p`       (fail when `p` is nil)
  p.next = r / p.value = r            `setNext p r` / `setValue p r`
  queue.head = r / queue.tail = r     `setHead r` / `setTail r`
  queue.pool.Get().(*q[A])            `← poolGet c`   (`c`: which pooled node `sync.Pool` hands out, or a fresh one)
  queue.pool.Put(p)                   `poolPut p`
  *v  (v : *A)                        `← deref v`                        (fail when nil)
  x   (the parameter `x *A` of enq)   `some x`
Core Lean only.
-/
import Golem.Model.Queue
namespace Golem.Model.QDSL
open Golem.Model.Queue

def QM (α X : Type) : Type := Queue α → Option (X × Queue α)

variable {α X Y : Type}

@[inline] def QM.pure (x : X) : QM α X := fun q => some (x, q)
@[inline] def QM.bind (m : QM α X) (f : X → QM α Y) : QM α Y := fun q =>
  match m q with
  | some (x, q') => f x q'
  | none => none

instance : Monad (QM α) where
  pure := QM.pure
  bind := QM.bind

def getHead : QM α (Option Nat) := fun q => some (q.head, q)
def getTail : QM α (Option Nat) := fun q => some (q.tail, q)
def setHead (p : Option Nat) : QM α Unit := fun q => some ((), { q with head := p })
def setTail (p : Option Nat) : QM α Unit := fun q => some ((), { q with tail := p })
def nextOf (p : Option Nat) : QM α (Option Nat) := fun q =>
  match p with
  | some i => some ((q.node i).next, q)
  | none => none
def valueOf (p : Option Nat) : QM α (Option α) := fun q =>
  match p with
  | some i => some ((q.node i).value, q)
  | none => none
def setNext (p r : Option Nat) : QM α Unit := fun q =>
  match p with
  | some i => some ((), setNode q i { q.node i with next := r })
  | none => none
def setValue (p : Option Nat) (v : Option α) : QM α Unit := fun q =>
  match p with
  | some i => some ((), setNode q i { q.node i with value := v })
  | none => none
def poolGet (c : Option Nat) : QM α (Option Nat) := fun q => some (some (get c q).1, (get c q).2)
def poolPut (p : Option Nat) : QM α Unit := fun q =>
  match p with
  | some i => some ((), { q with pool := i :: q.pool })
  | none => some ((), q)
def deref (v : Option α) : QM α α := fun q => v.map fun a => (a, q)

end Golem.Model.QDSL
