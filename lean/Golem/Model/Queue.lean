/-
pipe/queue.go at pointer level.

    type queue[A any] struct { head *q[A]; tail *q[A]; pool sync.Pool }
    type q[A any]     struct { value *A; next *q[A] }

Pointers are node ids into an arena (`node`, ids `< size` are allocated), `nil` is `none`.
`sync.Pool`: `Put` adds the node to `pool`; `Get` returns ANY pooled node or a fresh one made by
`New` — the choice is an explicit oracle argument (`none`: fresh; `some n`: the pooled node `n`,
fresh when `n` is not in the pool).  (A pool may also silently drop nodes, e.g. at a GC: a dropped
node is one that is never chosen again.)

Every function follows the Go text statement by statement; mutation through pointers becomes a
new arena.  Core Lean only.
-/
namespace Golem.Model.Queue

structure Node (α : Type) where
  /-- `value *A` -/
  value : Option α := none
  /-- `next *q[A]` -/
  next : Option Nat := none

structure Queue (α : Type) where
  node : Nat → Node α := fun _ => {}
  size : Nat := 0
  head : Option Nat := none
  tail : Option Nat := none
  pool : List Nat := []

variable {α : Type}

/-- `newq`: `&queue[A]{}` -/
def newq : Queue α := {}

def setNode (q : Queue α) (i : Nat) (n : Node α) : Queue α :=
  { q with node := fun j => if j = i then n else q.node j }

/-- `New`: `&q[A]{}` -/
def fresh (q : Queue α) : Nat × Queue α :=
  (q.size, { setNode q q.size {} with size := q.size + 1 })

/-- `queue.pool.Get().(*q[A])` -/
def get (c : Option Nat) (q : Queue α) : Nat × Queue α :=
  match c with
  | none => fresh q
  | some n => if n ∈ q.pool then (n, { q with pool := q.pool.erase n }) else fresh q

/-- `enq(x, queue)` -/
def enq (c : Option Nat) (x : α) (q : Queue α) : Queue α :=
  -- val := queue.pool.Get().(*q[A])
  let (val, q) := get c q
  -- val.value = x; val.next = nil
  let q := setNode q val { value := some x, next := none }
  -- if queue.tail != nil { queue.tail.next = val }
  let q := match q.tail with
    | some t => setNode q t { q.node t with next := some val }
    | none => q
  -- queue.tail = val
  let q := { q with tail := some val }
  -- if queue.head == nil { queue.head = val }
  match q.head with
  | none => { q with head := some val }
  | some _ => q

/-- `deq(queue)`: `none` is the nil-pointer panic on an empty queue (`queue.head.next`); otherwise
the returned `*A` and the new queue -/
def deq (q : Queue α) : Option (Option α × Queue α) :=
  -- val := queue.head
  match q.head with
  | none => none
  | some val =>
    -- queue.head = val.next
    let q1 := { q with head := (q.node val).next }
    -- if val == queue.tail { queue.tail = nil }
    let q2 := if q1.tail = some val then { q1 with tail := none } else q1
    -- queue.pool.Put(val)
    let q3 := { q2 with pool := val :: q2.pool }
    -- return val.value
    some ((q.node val).value, q3)

/-- `head(queue)`: the zero value on an empty queue, else `*queue.head.value`
(a nil `value` would be a nil-pointer panic; `none` here) -/
def head (zero : α) (q : Queue α) : Option α :=
  match q.head with
  | none => some zero
  | some h => (q.node h).value

/-- `emit(ch, queue)`: `false` is the nil channel (the select arm is disabled), `true` is `ch` -/
def emit (q : Queue α) : Bool := q.head.isSome

/-- follow `next` from `cur`, collecting the values (fuel: a chain of allocated, distinct nodes
is no longer than the arena) -/
def walk (q : Queue α) : Nat → Option Nat → List α
  | 0, _ => []
  | _ + 1, none => []
  | f + 1, some i =>
    (match (q.node i).value with
     | some v => [v]
     | none => []) ++ walk q f (q.node i).next

/-- the queued values, head first -/
def toList (q : Queue α) : List α := walk q q.size q.head

/-- operation sequences -/
inductive Op (α : Type) where
  | enq (c : Option Nat) (x : α)
  | deq

/-- run a sequence of operations; a `deq` on an empty queue (a panic in Go, never issued by the
pump: both call sites are guarded by `mq.head != nil` / the `emit` arm) is skipped.
Returns the dequeued values and the final queue. -/
def run : List (Op α) → Queue α → List (Option α) × Queue α
  | [], q => ([], q)
  | .enq c x :: ops, q => run ops (enq c x q)
  | .deq :: ops, q =>
    match deq q with
    | none => run ops q
    | some (v, q') => let r := run ops q'; (v :: r.1, r.2)

end Golem.Model.Queue
