/-
Byte-memory model of /repo/optics/lens.go (`NewLens`, `lens.Get/Put`, `ForProduct1..9`) and
/repo/optics/reflector.go (`NewReflector`, `Gett/Putt`, `ForSpectrum1..9`).  Core Lean only.

Memory is `Nat → UInt8`; a value of Go type `t` is a byte list of length `size t`.
`*(*A)(unsafe.Pointer(uintptr(unsafe.Pointer(s)) + lens.Offset + lens.RootOffs)) = a`
overwrites `[s + Offset + RootOffs, + size A)` and returns `s`.

The model is faithful to today's code, including what it gets wrong (DESIGN section 9, F5):
nothing here knows whether an entry was reached through a pointer.  (F6 is repaired: `NewLens` and
`NewReflector` panic unless the container type parameter is a struct.)
-/
import Golem.Model.Hseq
namespace Golem.Model

abbrev Mem := Nat → UInt8

/-- The `n` bytes at `[a, a+n)`. -/
def Mem.read (m : Mem) (a n : Nat) : List UInt8 := (List.range n).map (fun i => m (a + i))

/-- Overwrite `[a, a + bs.length)` with `bs`. -/
def Mem.write (m : Mem) (a : Nat) (bs : List UInt8) : Mem :=
  fun x => if h : a ≤ x ∧ x - a < bs.length then bs[x - a]'h.2 else m x

/-- `lens[S, A]{hseq.Type[S]}`: the entry plus the two type parameters. -/
structure Lens where
  entry : Entry
  S : GoType
  A : GoType
  deriving DecidableEq, Repr

/-- `NewLens[S, A](t)`:
```
if cat := reflect.TypeOf(new(S)).Elem(); cat.Kind() != reflect.Struct { panic(fmt.Errorf(…)) }
if ft.String() == fv.String() && ft.AssignableTo(fv) { return &lens[S, A]{t} }
panic(fmt.Errorf(…))
``` -/
def newLens (S A : GoType) (t : Entry) : Except Panic Lens :=
  if S.kind ≠ .struct then .error .error
  else if t.field.type = A then .ok ⟨t, S, A⟩ else .error .error

/-- `NewReflector[S, A](t)`: the same container check, the same guard, the same `&lens[S, A]{t}`. -/
def newReflector (S A : GoType) (t : Entry) : Except Panic Lens :=
  if S.kind ≠ .struct then .error .error
  else if t.field.type = A then .ok ⟨t, S, A⟩ else .error .error

/-- `uintptr(unsafe.Pointer(s)) + lens.Offset + lens.RootOffs`. -/
def Lens.addr (l : Lens) (s : Nat) : Nat := s + l.entry.offset + l.entry.rootOffs

/-- `lens.Get(s)`. -/
def Lens.get (l : Lens) (m : Mem) (s : Nat) : List UInt8 := m.read (l.addr s) l.A.size

/-- `lens.Put(s, a)`: new memory and the returned pointer. -/
def Lens.put (l : Lens) (m : Mem) (s : Nat) (a : List UInt8) : Mem × Nat := (m.write (l.addr s) a, s)

/-- A value of type `any`: dynamic type (`none` = nil interface) and, for pointers, the address. -/
structure Dyn where
  type : Option GoType
  addr : Nat
  deriving DecidableEq, Repr

/-- `lens.Gett(s any)`: `switch v := s.(type) { case *S: … default: panic(fmt.Errorf(…)) }`. -/
def Lens.gett (l : Lens) (m : Mem) (s : Dyn) : Except Panic (List UInt8) :=
  if s.type = some (.ptr l.S) then .ok (l.get m s.addr) else .error .error

/-- `lens.Putt(s any, a)`: new memory and the returned `any` (the argument itself). -/
def Lens.putt (l : Lens) (m : Mem) (s : Dyn) (a : List UInt8) : Except Panic (Mem × Dyn) :=
  if s.type = some (.ptr l.S) then .ok ((l.put m s.addr a).1, s) else .error .error

/-- The names handed to `hseq.New`: `attr[0]` for arity 1, `attr[0:N]` otherwise. -/
def attrNames (n : Nat) (attr : List String) : Except Panic (List String) :=
  if n = 1 then
    match index attr 0 with
    | .ok a => .ok [a]
    | .error p => .error p
  else sliceTo attr n

/-- `ForProductN` / `ForSpectrumN` for the focus types `As` (N = `As.length`):
```
if len(attr) == 0 { seq = hseq.NewN[T, A…]() } else { seq = hseq.New[T](attr[0:N]...) }
return hseq.FMapN(seq, mk[T, A], mk[T, B], …)
``` -/
def deriveN (mk : GoType → GoType → Entry → Except Panic Lens)
    (T : GoType) (As : List GoType) (attr : List String) : Except Panic (List Lens) :=
  let seq :=
    if attr.isEmpty then newN T As
    else
      match attrNames As.length attr with
      | .error p => .error p
      | .ok names => hseqNew T names
  match seq with
  | .error p => .error p
  | .ok seq => fmapN seq (As.map (mk T))

def forProduct := deriveN newLens
def forSpectrum := deriveN newReflector

/-- The bytes a lens reads and writes, relative to the container pointer: `[lo, hi)`. -/
def Lens.window (l : Lens) : Nat × Nat :=
  (l.entry.offset + l.entry.rootOffs, l.entry.offset + l.entry.rootOffs + l.A.size)

end Golem.Model
