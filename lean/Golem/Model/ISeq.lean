/-
Hand model (H) of /repo/internal/seq: types.go, foldable.go, list/list.go, slice/slice.go.
Core Lean only.  Every definition mirrors the Go text next to which it is quoted.

* `list.Seq[A]`  = `{len int; list *list[A]}` with `list[A] = {head A; tail *list[A]}`.
  Cells are only ever created by composite literals in list.go and no statement assigns to a
  field of an existing cell, so an immutable inductive type (`Cells`, `nil` = the nil pointer)
  is a faithful picture of the reachable heap.  `len` is the *cached* length, kept as the code
  computes it (`len+1`, `len-1` blindly); that it equals the real number of cells is a theorem
  (`len_cached`), not part of the model.
* `slice.Seq[A]` = `[]A`.  Slices are modelled with Go's slice semantics: a heap of backing
  arrays and slice headers `(array, offset, len, cap)`.  `New` returns its variadic parameter
  *aliased*; `Tail` reslices `seq[1:]` (same backing array); `Cons` is
  `append([]A{x}, seq...)` through a general model of `append` that writes IN PLACE when the
  capacity suffices and reallocates otherwise.  Persistence of the slice implementation is
  therefore a real theorem about backing arrays, not a consequence of Lean's immutability.
* `Foldable.Fold` is the loop `for !IsEmpty(s) { x = Combine(x, Head(s)); s = Tail(s) }` with
  explicit fuel; exhausting the fuel is the error `Panic.fuel` (proved unreachable with
  fuel = Length).
* Panics (`nil` dereference, index out of range, slice bounds out of range) are `Except Panic`.
-/
namespace Golem.Model.ISeq

inductive Panic where
  | nilDeref   -- invalid memory address or nil pointer dereference
  | index      -- index out of range
  | bounds     -- slice bounds out of range
  | fuel       -- model artefact: loop fuel exhausted (proved unreachable)
  deriving DecidableEq, Repr

/-- `monoid.Monoid[A]` as the fold uses it: `Empty()` and `Combine(a, b)`; no laws assumed. -/
structure Monoid (A : Type) where
  empty : A
  combine : A → A → A

/-- The part of `seq.Seq[F_, A]` the fold loop uses (`IsEmpty`, `Head`, `Tail`). -/
structure View (F A : Type) where
  isEmpty : F → Bool
  head : F → Except Panic A
  tail : F → Except Panic F

/-- foldable.go:28-38, generalised over the accumulator so that the same loop also serves as
the element walk the harness uses to read a sequence out:
```
for !f.Seq.IsEmpty(s) { x = m.Combine(x, f.Seq.Head(s)); s = f.Seq.Tail(s) }
return x
``` -/
def foldLoop {F A B : Type} (V : View F A) (step : B → A → B) : Nat → B → F → Except Panic B
  | 0, x, s => if V.isEmpty s then .ok x else .error .fuel
  | n + 1, x, s =>
    if V.isEmpty s then .ok x
    else match V.head s with
      | .error e => .error e
      | .ok a =>
        match V.tail s with
        | .error e => .error e
        | .ok s' => foldLoop V step n (step x a) s'

/-- `Foldable.Fold(m, seq)`: `x := m.Empty(); s := seq; loop`. -/
def fold {F A : Type} (V : View F A) (M : Monoid A) (fuel : Nat) (s : F) : Except Panic A :=
  foldLoop V M.combine fuel M.empty s

/-- Reading a sequence out with `IsEmpty/Head/Tail` only (what the harness does). -/
def walk {F A : Type} (V : View F A) (fuel : Nat) (s : F) : Except Panic (List A) :=
  foldLoop V (fun acc a => acc ++ [a]) fuel [] s

/-! ## list/list.go -/

/-- `*list[A]`: `nil` or a pointer to `{head, tail}`. -/
inductive Cells (A : Type) where
  | nil : Cells A
  | cell (head : A) (tail : Cells A) : Cells A

def Cells.toList {A : Type} : Cells A → List A
  | .nil => []
  | .cell h t => h :: t.toList

/-- `type Seq[A any] struct { len int; list *list[A] }` -/
structure LSeq (A : Type) where
  len : Int
  list : Cells A

namespace L
variable {A : Type}

/-- `for i := len(seq) - 1; i >= 0; i-- { tail = &list[A]{head: seq[i], tail: tail} }`;
the first argument is `seq[len-1], seq[len-2], …, seq[0]`, the order in which the loop visits. -/
def newLoop : List A → Cells A → Cells A
  | [], tail => tail
  | x :: rest, tail => newLoop rest (.cell x tail)

/-- `New(seq ...A)`: `var tail *list[A]; loop; return Seq[A]{len: len(seq), list: tail}` -/
def new (xs : List A) : LSeq A := ⟨xs.length, newLoop xs.reverse .nil⟩

/-- `Cons(x, seq) = Seq[A]{len: seq.len + 1, list: &list[A]{head: x, tail: seq.list}}` -/
def cons (x : A) (s : LSeq A) : LSeq A := ⟨s.len + 1, .cell x s.list⟩

/-- `Head(seq) = seq.list.head` (nil dereference on an empty sequence) -/
def head (s : LSeq A) : Except Panic A :=
  match s.list with
  | .nil => .error .nilDeref
  | .cell h _ => .ok h

/-- `Tail(seq) = Seq[A]{len: seq.len - 1, list: seq.list.tail}` -/
def tail (s : LSeq A) : Except Panic (LSeq A) :=
  match s.list with
  | .nil => .error .nilDeref
  | .cell _ t => .ok ⟨s.len - 1, t⟩

/-- `Length(seq) = seq.len` -/
def length (s : LSeq A) : Int := s.len

/-- `IsEmpty(seq) = seq.len == 0` -/
def isEmpty (s : LSeq A) : Bool := s.len == 0

def view : View (LSeq A) A := ⟨isEmpty, head, tail⟩

/-- The element list of a value (reads the cells, ignores the cached length). -/
def elems (s : LSeq A) : List A := s.list.toList

end L

/-! ## slice/slice.go over a heap of backing arrays -/

/-- All backing arrays ever allocated, by allocation index; nothing is ever freed. -/
abbrev Heap (A : Type) := List (List A)

/-- A slice header: backing array, offset of element 0, `len`, `cap`. -/
structure Slice where
  arr : Nat
  off : Nat
  len : Nat
  cap : Nat
  deriving DecidableEq, Repr

namespace S
variable {A : Type}

def arrOf (h : Heap A) (s : Slice) : List A := (h[s.arr]?).getD []

/-- The elements visible through a slice header. -/
def elems (h : Heap A) (s : Slice) : List A := ((arrOf h s).drop s.off).take s.len

/-- A slice literal `[]A{x₁,…,xₙ}` (also the implicit slice of a variadic call
`New(x₁,…,xₙ)`): a fresh backing array with `len = cap = n`. -/
def lit (h : Heap A) (xs : List A) : Heap A × Slice :=
  (h ++ [xs], ⟨h.length, 0, xs.length, xs.length⟩)

/-- Overwrite `a[pos .. pos+|ys|)` with `ys`. -/
def writeAt (a : List A) (pos : Nat) (ys : List A) : List A :=
  a.take pos ++ ys ++ a.drop (pos + ys.length)

/-- Go's `append(s, ys...)`: if `len(s)+len(ys) ≤ cap(s)` the new elements are written into
`s`'s backing array *in place* and the result shares it; otherwise a new array of capacity
`need + slack need` is allocated (the growth policy `slack` is left arbitrary), the old
elements and `ys` are copied, the rest is zero (`default`). -/
def goAppend [Inhabited A] (slack : Nat → Nat) (h : Heap A) (s : Slice) (ys : List A) : Heap A × Slice :=
  if s.len + ys.length ≤ s.cap then
    (h.set s.arr (writeAt (arrOf h s) (s.off + s.len) ys), { s with len := s.len + ys.length })
  else
    let need := s.len + ys.length
    (h ++ [elems h s ++ ys ++ List.replicate (slack need) default],
     ⟨h.length, 0, need, need + slack need⟩)

/-- `New(seq ...A) Seq[A] { return seq }` — the parameter slice itself, aliased. -/
def new (s : Slice) : Slice := s

/-- `Cons(x, seq) = append([]A{x}, seq...)`: allocate the one-element literal, then append
the current elements of `seq` to it. -/
def cons [Inhabited A] (slack : Nat → Nat) (h : Heap A) (x : A) (s : Slice) : Heap A × Slice :=
  let (h1, s1) := lit h [x]
  goAppend slack h1 s1 (elems h1 s)

/-- `Head(seq) = seq[0]` -/
def head (h : Heap A) (s : Slice) : Except Panic A :=
  if 0 < s.len then
    match (arrOf h s)[s.off]? with
    | some x => .ok x
    | none => .error .index      -- ill-formed header; unreachable (see `WF`)
  else .error .index

/-- `Tail(seq) = seq[1:]` (panics unless `1 ≤ len(seq)`) -/
def tail (s : Slice) : Except Panic Slice :=
  if 1 ≤ s.len then .ok ⟨s.arr, s.off + 1, s.len - 1, s.cap - 1⟩ else .error .bounds

/-- `Length(seq) = len(seq)` -/
def length (s : Slice) : Int := s.len

/-- `IsEmpty(seq) = len(seq) == 0` -/
def isEmpty (s : Slice) : Bool := s.len == 0

/-- `Head`, `Tail`, `IsEmpty` only read, so for a fixed heap they form a pure view. -/
def view (h : Heap A) : View Slice A := ⟨isEmpty, head h, fun s => tail s⟩

/-- A header that lies inside an allocated array. -/
def WF (h : Heap A) (s : Slice) : Prop :=
  s.arr < h.length ∧ s.off + s.len ≤ (arrOf h s).length

end S

/-! ## Scripts over registers -/

/-- Operations; `new/cons/tail` define the next register, the others observe register `r`. -/
inductive Op (A : Type) where
  | new (xs : List A)
  | cons (x : A) (r : Nat)
  | tail (r : Nat)
  | head (r : Nat)
  | length (r : Nat)
  | isEmpty (r : Nat)
  | fold (r : Nat)

/-- What an operation lets the caller see.  A constructor shows the element list and the
reported `Length` of the register it defined.  `panic` (any Go panic) and `badReg` (script
refers to an undefined register) end the script. -/
inductive Obs (A : Type) where
  | seq (xs : List A) (len : Int)
  | val (a : A)
  | int (n : Int)
  | bool (b : Bool)
  | panic
  | badReg
  deriving DecidableEq, Repr

abbrev StepResult (σ A : Type) := Except (Obs A) (σ × Obs A)

/-- Run a script: stop at the first terminal observation. -/
def runWith {σ A : Type} (step : σ → Op A → StepResult σ A) : σ → List (Op A) → List (Obs A)
  | _, [] => []
  | st, op :: rest =>
    match step st op with
    | .error o => [o]
    | .ok (st', o) => o :: runWith step st' rest

/-- States visited by a script (for statements about every reachable register). -/
def statesWith {σ A : Type} (step : σ → Op A → StepResult σ A) : σ → List (Op A) → List σ
  | st, [] => [st]
  | st, op :: rest =>
    match step st op with
    | .error _ => [st]
    | .ok (st', _) => st :: statesWith step st' rest

section
variable {A : Type}

def obsL (s : LSeq A) : Obs A := .seq (L.elems s) (L.length s)

/-- One operation on the linked-list implementation. -/
def stepL (M : Monoid A) (regs : List (LSeq A)) : Op A → StepResult (List (LSeq A)) A
  | .new xs => let s := L.new xs; .ok (regs ++ [s], obsL s)
  | .cons x r =>
    match regs[r]? with
    | none => .error .badReg
    | some s => let s' := L.cons x s; .ok (regs ++ [s'], obsL s')
  | .tail r =>
    match regs[r]? with
    | none => .error .badReg
    | some s =>
      match L.tail s with
      | .error _ => .error .panic
      | .ok s' => .ok (regs ++ [s'], obsL s')
  | .head r =>
    match regs[r]? with
    | none => .error .badReg
    | some s =>
      match L.head s with
      | .error _ => .error .panic
      | .ok a => .ok (regs, .val a)
  | .length r =>
    match regs[r]? with
    | none => .error .badReg
    | some s => .ok (regs, .int (L.length s))
  | .isEmpty r =>
    match regs[r]? with
    | none => .error .badReg
    | some s => .ok (regs, .bool (L.isEmpty s))
  | .fold r =>
    match regs[r]? with
    | none => .error .badReg
    | some s =>
      match fold L.view M (L.length s).toNat s with
      | .error _ => .error .panic
      | .ok a => .ok (regs, .val a)

/-- State of the slice implementation: the heap and the registers (slice headers). -/
structure SState (A : Type) where
  heap : Heap A
  regs : List Slice

def obsS (h : Heap A) (s : Slice) : Obs A := .seq (S.elems h s) (S.length s)

/-- One operation on the slice implementation.  `new xs`: the caller builds the slice
`[]A{xs…}` and passes it as the variadic parameter (`New(xs...)`). -/
def stepS [Inhabited A] (slack : Nat → Nat) (M : Monoid A) (st : SState A) : Op A → StepResult (SState A) A
  | .new xs =>
    let (h', p) := S.lit st.heap xs
    let s := S.new p
    .ok (⟨h', st.regs ++ [s]⟩, obsS h' s)
  | .cons x r =>
    match st.regs[r]? with
    | none => .error .badReg
    | some s =>
      let (h', s') := S.cons slack st.heap x s
      .ok (⟨h', st.regs ++ [s']⟩, obsS h' s')
  | .tail r =>
    match st.regs[r]? with
    | none => .error .badReg
    | some s =>
      match S.tail s with
      | .error _ => .error .panic
      | .ok s' => .ok (⟨st.heap, st.regs ++ [s']⟩, obsS st.heap s')
  | .head r =>
    match st.regs[r]? with
    | none => .error .badReg
    | some s =>
      match S.head st.heap s with
      | .error _ => .error .panic
      | .ok a => .ok (st, .val a)
  | .length r =>
    match st.regs[r]? with
    | none => .error .badReg
    | some s => .ok (st, .int (S.length s))
  | .isEmpty r =>
    match st.regs[r]? with
    | none => .error .badReg
    | some s => .ok (st, .bool (S.isEmpty s))
  | .fold r =>
    match st.regs[r]? with
    | none => .error .badReg
    | some s =>
      match fold (S.view st.heap) M (S.length s).toNat s with
      | .error _ => .error .panic
      | .ok a => .ok (st, .val a)

def runL (M : Monoid A) (sc : List (Op A)) : List (Obs A) := runWith (stepL M) [] sc

def runS [Inhabited A] (slack : Nat → Nat) (M : Monoid A) (sc : List (Op A)) : List (Obs A) :=
  runWith (stepS slack M) ⟨[], []⟩ sc

end

end Golem.Model.ISeq
