/-
Model of /repo/internal/maplike/skiplist (skiplist.go, skipnode.go) — core Lean only.

Representation.  The Go heap of `tSkipNode`s is an append-only node store
(`store[i]` = node with address `i`; `store[0]` is `list.head`, whose key and value are the zero
values and whose `fingers` has `levels` slots; nodes unlinked by `Remove` stay in the store as
garbage, exactly like unreachable heap objects).  The forward pointers are kept as one chain of
node ids per level: `chains[l]` is the sequence of nodes reached from `head` by following
`fingers[l]`.  Hence `p.fingers[l]` is *by definition* the element following `p` in `chains[l]`
(`finger`), `nil` when there is none, and assigning `p.fingers[l] = x` replaces the part of
`chains[l]` that follows `p` (`relinkAfter`).

Control flow follows the Go code statement by statement: `skip`/`search` go from the top level to
level 0, on each level they start *from the node reached on the level above* and advance while
`compare(next.key, key) == LT` (`walk`); `put` overwrites on `EQ` and otherwise splices a new node
along the recorded `path` on the levels below its height; `remove` unlinks on every level where
`path[l].fingers[l] == v`.  The random source of `mkNode` is an explicit input (the height `h` of
the node to be created).  The comparison trait `cmp` is a parameter of everything.
-/
namespace Golem.Model.Skiplist

/-- `tSkipNode` (skipnode.go): `height` is `len(node.fingers)`. -/
structure Node (K V : Type) where
  key : K
  val : V
  height : Nat

/-- `tSkipList` without the random source and the probability table. `levels = chains.length`. -/
structure State (K V : Type) where
  store : Array (Node K V)
  chains : List (List Nat)

variable {K V : Type} [Inhabited K] [Inhabited V]

def State.key (s : State K V) (i : Nat) : K :=
  match s.store[i]? with | some n => n.key | none => default
def State.val (s : State K V) (i : Nat) : V :=
  match s.store[i]? with | some n => n.val | none => default
def State.height (s : State K V) (i : Nat) : Nat :=
  match s.store[i]? with | some n => n.height | none => 0
/-- address of the next allocated node -/
def State.next (s : State K V) : Nat := s.store.size
/-- `list.levels` = `len(list.head.fingers)` -/
def State.levels (s : State K V) : Nat := s.chains.length
/-- the level-0 chain -/
def State.level0 (s : State K V) : List Nat := s.chains.getD 0 []

/-- `New(compare)`: head node with `levels` nil fingers. (Go: `levels = 22`.) -/
def init (levels : Nat) : State K V :=
  { store := #[{ key := default, val := default, height := levels }],
    chains := List.replicate levels [] }

/-! ### forward pointers -/

/-- what follows node `p ≠ head` in a chain -/
def dropAfter (p : Nat) : List Nat → List Nat
  | [] => []
  | x :: xs => if x = p then xs else dropAfter p xs

/-- the nodes reachable from `p` via `fingers[l]`, where `c = chains[l]`; the head is node 0 -/
def after (p : Nat) (c : List Nat) : List Nat := if p = 0 then c else dropAfter p c

/-- `p.fingers[l]` (`none` = nil) -/
def finger (s : State K V) (l p : Nat) : Option Nat := (after p (s.chains.getD l [])).head?

/-- the assignment `p.fingers[l] = …`: the part of the chain following `p` becomes `f` of it -/
def relinkAfter (p : Nat) (f : List Nat → List Nat) (c : List Nat) : List Nat :=
  if p = 0 then f c else go c
where
  go : List Nat → List Nat
    | [] => []
    | x :: xs => if x = p then x :: f xs else x :: go xs

/-! ### skip / search -/

/-- inner loop of `skip`/`search` on one level; the list is `node.fingers[level]`, its successor, …
    `for next[level] != nil && Compare(next[level].key, key) == LT { node = node.fingers[level] }` -/
def walk (cmp : K → K → Ordering) (s : State K V) (k : K) (node : Nat) : List Nat → Nat
  | [] => node
  | x :: xs => if cmp (s.key x) k = .lt then walk cmp s k x xs else node

/-- outer loop of `skip` over the levels `cs` (lowest first; the levels above are processed first):
    returns the node reached on the lowest of them and `path` for these levels. -/
def skipFrom (cmp : K → K → Ordering) (s : State K V) (k : K) : List (List Nat) → Nat × List Nat
  | [] => (0, [])
  | c :: upper =>
    let r := skipFrom cmp s k upper
    let node := walk cmp s k r.1 (after r.1 c)
    (node, node :: r.2)

/-- `skip(key)`: (`next[0]`, `path`) -/
def skip (cmp : K → K → Ordering) (s : State K V) (k : K) : Option Nat × List Nat :=
  let r := skipFrom cmp s k s.chains
  (finger s 0 r.1, r.2)

/-- outer loop of `search` -/
def searchFrom (cmp : K → K → Ordering) (s : State K V) (k : K) : List (List Nat) → Nat
  | [] => 0
  | c :: upper =>
    let node := searchFrom cmp s k upper
    walk cmp s k node (after node c)

/-- `search(key)`: `next[0]` -/
def search (cmp : K → K → Ordering) (s : State K V) (k : K) : Option Nat :=
  finger s 0 (searchFrom cmp s k s.chains)

/-! ### Get / Put / Remove -/

/-- `Get(key)` -/
def get (cmp : K → K → Ordering) (s : State K V) (k : K) : V :=
  match search cmp s k with
  | some node => if cmp (s.key node) k = .eq then s.val node else default
  | none => default

/-- `for level := 0; level < rank; level++ { node.fingers[level] = path[level].fingers[level];
    path[level].fingers[level] = node }`  — `l` is the current level, lists start at level `l`. -/
def splice (n rank : Nat) : Nat → List Nat → List (List Nat) → List (List Nat)
  | l, p :: ps, c :: cs =>
    (if l < rank then relinkAfter p (fun rest => n :: rest) c else c) :: splice n rank (l + 1) ps cs
  | _, _, cs => cs

/-- `v.val = val` -/
def setVal (s : State K V) (i : Nat) (v : V) : State K V :=
  { s with store := s.store.modify i (fun n => { n with val := v }) }

/-- `Put(key, val)` where `mkNode` draws height `h`. -/
def put (cmp : K → K → Ordering) (s : State K V) (k : K) (v : V) (h : Nat) : State K V :=
  let r := skip cmp s k
  let fresh : State K V :=
    { store := s.store.push { key := k, val := v, height := h },
      chains := splice s.next h 0 r.2 s.chains }
  match r.1 with
  | some node => if cmp (s.key node) k = .eq then setVal s node v else fresh
  | none => fresh

/-- body of the `Remove` loop on one level: `if path[l].fingers[l] == v { if len(v.fingers) > l
    { path[l].fingers[l] = v.fingers[l] } else { path[l].fingers[l] = nil } }`, as a function of
    the part of the chain that follows `path[l]`. -/
def unlinkAt (v hv l : Nat) : List Nat → List Nat
  | [] => []
  | x :: rest => if x = v then (if hv > l then rest else []) else x :: rest

/-- `for level := 0; level < rank; level++ { … }` with `rank = len(head.fingers)` -/
def unlink (v hv : Nat) : Nat → List Nat → List (List Nat) → List (List Nat)
  | l, p :: ps, c :: cs => relinkAfter p (unlinkAt v hv l) c :: unlink v hv (l + 1) ps cs
  | _, _, cs => cs

/-- `Remove(key)` -/
def remove (cmp : K → K → Ordering) (s : State K V) (k : K) : State K V × V :=
  let r := skip cmp s k
  match r.1 with
  | some v =>
    if cmp (s.key v) k = .eq then
      ({ s with chains := unlink v (s.height v) 0 r.2 s.chains }, s.val v)
    else (s, default)
  | none => (s, default)

/-! ### String -/

/-- `node.String()`: the key and, per finger, the key it points to or nil -/
def nodeLine (s : State K V) (p : Nat) : K × List (Option K) :=
  (s.key p, (List.range (s.height p)).map (fun l => (finger s l p).map s.key))

/-- `list.String()` without the address header: `v := head; for v != nil { …; v = v.fingers[0] }` -/
def printed (s : State K V) : List (K × List (Option K)) :=
  (0 :: s.level0).map (nodeLine s)

/-! ### histories -/

inductive Op (K V : Type) where
  | put (k : K) (v : V) (h : Nat)   -- `h`: the height `mkNode` draws if a node is created
  | get (k : K)
  | remove (k : K)

/-- one operation: new state and the answer (`none` for `Put`, which returns the list itself) -/
def step (cmp : K → K → Ordering) (s : State K V) : Op K V → State K V × Option V
  | .put k v h => (put cmp s k v h, none)
  | .get k => (s, some (get cmp s k))
  | .remove k => let r := remove cmp s k; (r.1, some r.2)

/-- run a history: final state and the list of answers -/
def run (cmp : K → K → Ordering) (s : State K V) : List (Op K V) → State K V × List (Option V)
  | [] => (s, [])
  | o :: os =>
    let r := step cmp s o
    let t := run cmp r.1 os
    (t.1, r.2 :: t.2)

end Golem.Model.Skiplist
