/- `oracle <property>`: line-protocol model driver (hand models only, never Gen/). -/
import Golem.Driver.C01
import Golem.Driver.C02
import Golem.Driver.C03
import Golem.Driver.C04
import Golem.Driver.C05
import Golem.Driver.C06
import Golem.Driver.C07
import Golem.Driver.C08
import Golem.Driver.C09
import Golem.Driver.C10
import Golem.Driver.C11
import Golem.Driver.C12
import Golem.Driver.C13
import Golem.Driver.C14
import Golem.Driver.C15
import Golem.Driver.C16
import Golem.Driver.C17
import Golem.Driver.C18
import Golem.Driver.C19
import Golem.Driver.C20
import Golem.Driver.Lockstep
import Golem.Driver.Unbound
import Golem.Driver.Timed
import Golem.Driver.Throttle
import Golem.Driver.ForkFold

def main (args : List String) : IO UInt32 := do
  match args with
  | ["C01"] => Golem.Driver.C01.main; return 0
  | ["C02"] => Golem.Driver.C02.main; return 0
  | ["C03"] => Golem.Driver.C03.main; return 0
  | ["C04"] => Golem.Driver.C04.main; return 0
  | ["C05"] => Golem.Driver.C05.main; return 0
  | ["C06"] => Golem.Driver.C06.main; return 0
  | ["C07"] => Golem.Driver.C07.main; return 0
  | ["C08"] => Golem.Driver.C08.main; return 0
  | ["C09"] => Golem.Driver.C09.main; return 0
  | ["C10"] => Golem.Driver.C10.main; return 0
  | ["C11"] => Golem.Driver.C11.main; return 0
  | ["C12"] => Golem.Driver.C12.main; return 0
  | ["C13"] => Golem.Driver.C13.main; return 0
  | ["C14"] => Golem.Driver.C14.main; return 0
  | ["C15"] => Golem.Driver.C15.main; return 0
  | ["C16"] => Golem.Driver.C16.main; return 0
  | ["C17"] => Golem.Driver.C17.main; return 0
  | ["C18"] => Golem.Driver.C18.main; return 0
  | ["C19"] => Golem.Driver.C19.main; return 0
  | ["C20"] => Golem.Driver.C20.main; return 0
  | ["lockstep"] => Golem.Driver.Lockstep.main; return 0
  | ["unbound"] => Golem.Driver.Unbound.main; return 0
  | ["timed"] => Golem.Driver.Timed.main; return 0
  | ["throttle"] => Golem.Driver.Throttle.main; return 0
  | ["forkfold"] => Golem.Driver.ForkFold.main; return 0
  | _ => IO.eprintln "usage: oracle <C01..C20>"; return 2
