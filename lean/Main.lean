/- `oracle <property>`: line-protocol model driver (hand models only, never Gen/). -/
import Golem.Driver.C20

def main (args : List String) : IO UInt32 := do
  match args with
  | ["C20"] => Golem.Driver.C20.main; return 0
  | _ => IO.eprintln "usage: oracle <C01..C20>"; return 2
